// Package worker is the simulation worker process: a test binary (because
// testing/synctest bubbles need a *testing.T) that reads jobs as JSON lines on
// stdin and writes one JSON result line per job to fd 3 (or, with
// VERIF_RESULT_STDOUT=1, to stdout prefixed with "RESULT ").
package worker

import (
	"bufio"
	"encoding/json"
	"fmt"
	"net"
	"os"
	"strconv"
	"syscall"
	"testing"

	"verif/sim/props"
)

func TestWorker(t *testing.T) {
	if os.Getenv("VERIF_WORKER") == "" {
		t.Skip("not started by the driver")
	}
	// The net package creates its resolver-configuration semaphore (a channel)
	// on first use; created inside one synctest bubble it would be unusable from
	// the next job's bubble ("send on synctest channel from outside bubble").
	// Touch it here, outside every bubble.
	net.LookupHost("localhost")
	if v := os.Getenv("VERIF_SETUID"); v != "" {
		// unprivileged worker group (C11): drop root for the whole process
		id, _ := strconv.Atoi(v)
		if err := syscall.Setgroups([]int{id}); err != nil {
			t.Fatalf("setgroups: %v", err)
		}
		if err := syscall.Setgid(id); err != nil {
			t.Fatalf("setgid: %v", err)
		}
		if err := syscall.Setuid(id); err != nil {
			t.Fatalf("setuid: %v", err)
		}
	}
	var out *os.File
	prefix := ""
	if os.Getenv("VERIF_RESULT_STDOUT") != "" {
		out, prefix = os.Stdout, "RESULT "
	} else {
		out = os.NewFile(3, "results")
	}
	in := bufio.NewReaderSize(os.Stdin, 1<<20)
	for {
		line, err := in.ReadBytes('\n')
		if len(line) > 1 {
			var job props.Job
			if jerr := json.Unmarshal(line, &job); jerr != nil {
				fmt.Fprintf(out, "%s{\"inconclusive\":%q}\n", prefix, "bad job: "+jerr.Error())
			} else {
				res := props.Execute(t, &job)
				b, _ := json.Marshal(res)
				fmt.Fprintf(out, "%s%s\n", prefix, b)
			}
		}
		if err != nil {
			return
		}
	}
}
