package fstree

import (
	"io/fs"
	"path/filepath"
	"strings"
	"unsafe"

	"golang.org/x/sys/unix"
)

// Watcher records the kernel's own history of directory operations below a
// root (inotify): which names were unlinked, created, renamed away or renamed
// into place, in order. It lets an oracle speak about *every instant* of a
// session (a replaced path must never be unlinked in between), not only about
// the instants at which the simulator looks.
type Watcher struct {
	fd   int
	root string
	wds  map[int32]string // watch descriptor → directory path relative to root
}

type Event struct {
	Path string // relative to root
	Op   string // create delete moved_from moved_to
	Dir  bool
}

func NewWatcher(root string) (*Watcher, error) {
	fd, err := unix.InotifyInit1(unix.IN_NONBLOCK | unix.IN_CLOEXEC)
	if err != nil {
		return nil, err
	}
	w := &Watcher{fd: fd, root: root, wds: map[int32]string{}}
	err = filepath.WalkDir(root, func(p string, d fs.DirEntry, err error) error {
		if err != nil || !d.IsDir() {
			return nil
		}
		return w.add(p)
	})
	if err != nil {
		w.Close()
		return nil, err
	}
	return w, nil
}

func (w *Watcher) add(dir string) error {
	wd, err := unix.InotifyAddWatch(w.fd, dir, unix.IN_CREATE|unix.IN_DELETE|unix.IN_MOVED_FROM|unix.IN_MOVED_TO|unix.IN_MODIFY|unix.IN_ONLYDIR)
	if err != nil {
		return err
	}
	rel, _ := filepath.Rel(w.root, dir)
	w.wds[int32(wd)] = rel
	return nil
}

// Drain returns the events recorded so far. Directories created meanwhile
// are added to the watch set (events inside them before that are missed).
func (w *Watcher) Drain() []Event {
	var out []Event
	buf := make([]byte, 1<<16)
	for {
		n, err := unix.Read(w.fd, buf)
		if n <= 0 || err != nil {
			return out
		}
		off := 0
		for off+unix.SizeofInotifyEvent <= n {
			ev := (*unix.InotifyEvent)(unsafe.Pointer(&buf[off]))
			nameLen := int(ev.Len)
			name := ""
			if nameLen > 0 {
				b := buf[off+unix.SizeofInotifyEvent : off+unix.SizeofInotifyEvent+nameLen]
				name = strings.TrimRight(string(b), "\x00")
			}
			off += unix.SizeofInotifyEvent + nameLen
			dir, ok := w.wds[ev.Wd]
			if !ok || name == "" {
				continue
			}
			p := filepath.Join(dir, name)
			e := Event{Path: p, Dir: ev.Mask&unix.IN_ISDIR != 0}
			switch {
			case ev.Mask&unix.IN_CREATE != 0:
				e.Op = "create"
				if e.Dir {
					w.add(filepath.Join(w.root, p))
				}
			case ev.Mask&unix.IN_MODIFY != 0:
				e.Op = "modify" // content written (or truncated) through this name
			case ev.Mask&unix.IN_DELETE != 0:
				e.Op = "delete"
			case ev.Mask&unix.IN_MOVED_FROM != 0:
				e.Op = "moved_from"
			case ev.Mask&unix.IN_MOVED_TO != 0:
				e.Op = "moved_to"
				if e.Dir {
					w.add(filepath.Join(w.root, p))
				}
			default:
				continue
			}
			out = append(out, e)
		}
	}
}

func (w *Watcher) Close() { unix.Close(w.fd) }
