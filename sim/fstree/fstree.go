// Package fstree describes file trees abstractly (JSON-serialisable specs with
// deterministic content), materialises them on the real file system and takes
// snapshots of real directories back into abstract trees.
package fstree

import (
	"crypto/sha256"
	"encoding/hex"
	"encoding/json"
	"fmt"
	"io/fs"
	"os"
	"path/filepath"
	"sort"
	"strings"
	"syscall"
	"time"

	"golang.org/x/sys/unix"
)

// Name is a file name or path of arbitrary bytes. JSON form: printable ASCII
// stays as is, everything else (and '%') is %XX-escaped, so specs are readable
// and byte-exact.
type Name string

func (n Name) MarshalJSON() ([]byte, error) {
	var sb strings.Builder
	for i := 0; i < len(n); i++ {
		c := n[i]
		if c >= 0x20 && c < 0x7f && c != '%' && c != '"' && c != '\\' {
			sb.WriteByte(c)
		} else {
			fmt.Fprintf(&sb, "%%%02X", c)
		}
	}
	return json.Marshal(sb.String())
}

func (n *Name) UnmarshalJSON(b []byte) error {
	var s string
	if err := json.Unmarshal(b, &s); err != nil {
		return err
	}
	var out []byte
	for i := 0; i < len(s); i++ {
		if s[i] == '%' && i+2 < len(s) {
			var v byte
			if _, err := fmt.Sscanf(s[i+1:i+3], "%02X", &v); err == nil {
				out = append(out, v)
				i += 2
				continue
			}
		}
		out = append(out, s[i])
	}
	*n = Name(out)
	return nil
}

// Content describes file bytes deterministically.
type Content struct {
	Class  string `json:"class"`            // random zeros byte periodic high text
	Seed   uint64 `json:"seed,omitempty"`   // content identity
	Size   int64  `json:"size"`             // length of the base content
	Period int    `json:"period,omitempty"` // for periodic
	Edits  []Edit `json:"edits,omitempty"`  // applied in order to the base bytes
}

// Edit modifies content. Kind: ins (insert Len bytes at Off), del (delete Len
// at Off), rep (overwrite Len bytes at Off), swap (swap blocks of Len at Off
// and Off2), trunc (cut to Off), app (append Len bytes).
type Edit struct {
	Kind string `json:"k"`
	Off  int64  `json:"off,omitempty"`
	Off2 int64  `json:"off2,omitempty"`
	Len  int64  `json:"len,omitempty"`
	Seed uint64 `json:"seed,omitempty"`
}

type sm struct{ s uint64 }

func (r *sm) next() uint64 {
	r.s += 0x9e3779b97f4a7c15
	z := r.s
	z = (z ^ (z >> 30)) * 0xbf58476d1ce4e5b9
	z = (z ^ (z >> 27)) * 0x94d049bb133111eb
	return z ^ (z >> 31)
}

func fillRandom(b []byte, seed uint64) {
	r := sm{seed*0x9e3779b97f4a7c15 + 0x1234567}
	i := 0
	for ; i+8 <= len(b); i += 8 {
		v := r.next()
		b[i], b[i+1], b[i+2], b[i+3] = byte(v), byte(v>>8), byte(v>>16), byte(v>>24)
		b[i+4], b[i+5], b[i+6], b[i+7] = byte(v>>32), byte(v>>40), byte(v>>48), byte(v>>56)
	}
	if i < len(b) {
		v := r.next()
		for ; i < len(b); i++ {
			b[i] = byte(v)
			v >>= 8
		}
	}
}

func baseBytes(class string, seed uint64, size int64, period int) []byte {
	b := make([]byte, size)
	switch class {
	case "zeros":
	case "byte":
		c := byte(seed)
		for i := range b {
			b[i] = c
		}
	case "periodic":
		if period <= 0 {
			period = 1
		}
		pat := make([]byte, period)
		fillRandom(pat, seed)
		for i := range b {
			b[i] = pat[i%period]
		}
	case "high":
		fillRandom(b, seed)
		for i := range b {
			b[i] |= 0x80
		}
	case "text":
		fillRandom(b, seed)
		const alpha = "etaoin shrdlu\n"
		for i := range b {
			b[i] = alpha[int(b[i])%len(alpha)]
		}
	default: // random
		fillRandom(b, seed)
	}
	return b
}

// Bytes returns the content. nil Content = empty.
func (c *Content) Bytes() []byte {
	if c == nil {
		return nil
	}
	b := baseBytes(c.Class, c.Seed, c.Size, c.Period)
	for _, e := range c.Edits {
		n := int64(len(b))
		off := e.Off
		if off > n {
			off = n
		}
		if off < 0 {
			off = 0
		}
		switch e.Kind {
		case "ins":
			ins := make([]byte, e.Len)
			fillRandom(ins, e.Seed)
			nb := make([]byte, 0, n+e.Len)
			nb = append(nb, b[:off]...)
			nb = append(nb, ins...)
			nb = append(nb, b[off:]...)
			b = nb
		case "del":
			end := off + e.Len
			if end > n {
				end = n
			}
			b = append(b[:off:off], b[end:]...)
		case "rep":
			end := off + e.Len
			if end > n {
				end = n
			}
			rep := make([]byte, end-off)
			fillRandom(rep, e.Seed)
			copy(b[off:end], rep)
		case "swap":
			o2 := e.Off2
			l := e.Len
			if off+l <= o2 && o2+l <= n {
				tmp := append([]byte(nil), b[off:off+l]...)
				copy(b[off:off+l], b[o2:o2+l])
				copy(b[o2:o2+l], tmp)
			}
		case "wcoll":
			// keep the rolling (weak) checksum of any block containing
			// [off,off+3) unchanged while changing the content: +1,-2,+1
			if off+3 <= n {
				b[off]++
				b[off+1] -= 2
				b[off+2]++
			}
		case "dup":
			// copy Len bytes from Off2 to Off (duplicated block)
			if e.Off2+e.Len <= n && off+e.Len <= n {
				copy(b[off:off+e.Len], append([]byte(nil), b[e.Off2:e.Off2+e.Len]...))
			}
		case "trunc":
			b = b[:off]
		case "app":
			app := make([]byte, e.Len)
			fillRandom(app, e.Seed)
			b = append(b, app...)
		}
	}
	return b
}

// Entry is one file-system object of a tree spec.
type Entry struct {
	Path    Name     `json:"path"`  // relative, slash separated
	Type    string   `json:"type"`  // f d l fifo sock chr blk
	Perm    uint32   `json:"perm"`  // permission bits
	Mtime   int64    `json:"mtime"` // seconds
	MtimeNs int64    `json:"mtime_ns,omitempty"`
	Content *Content `json:"content,omitempty"`
	Target  Name     `json:"target,omitempty"` // symlink target
	Rdev    uint64   `json:"rdev,omitempty"`
	Uid     int      `json:"uid,omitempty"`
	Gid     int      `json:"gid,omitempty"`
	// HardlinkTo (type f): this path is a second hard link of that path of the
	// same tree (created after everything else; Content is ignored)
	HardlinkTo Name `json:"hardlink_to,omitempty"`
}

// Tree is a list of entries; parents need not be listed (created 0755).
type Tree struct {
	Entries []Entry `json:"entries"`
}

func (t *Tree) Sorted() []Entry {
	es := append([]Entry(nil), t.Entries...)
	sort.SliceStable(es, func(i, j int) bool { return es[i].Path < es[j].Path })
	return es
}

func (t *Tree) Find(p string) *Entry {
	for i := range t.Entries {
		if string(t.Entries[i].Path) == p {
			return &t.Entries[i]
		}
	}
	return nil
}

// Dedupe drops every entry whose path was already listed.
func (t *Tree) Dedupe() {
	seen := map[Name]bool{}
	out := t.Entries[:0]
	for _, e := range t.Entries {
		if seen[e.Path] {
			continue
		}
		seen[e.Path] = true
		out = append(out, e)
	}
	t.Entries = out
}

// Materialise creates the tree under root (which is created). Directory
// metadata is applied last, deepest first, so read-only directories work.
func Materialise(root string, t *Tree) error {
	if err := os.MkdirAll(root, 0755); err != nil {
		return err
	}
	es := t.Sorted()
	type dirfix struct {
		path string
		e    Entry
	}
	var dirs []dirfix
	var links [][2]string
	defer func() {
		// (best effort: a missing or non-regular target leaves the link out)
		for _, l := range links {
			os.Link(l[0], l[1])
		}
	}()
	for i, e := range es {
		if i > 0 && es[i-1].Path == e.Path {
			// (writing a "file" over a fifo of the same name would block forever)
			return fmt.Errorf("fstree: path %q listed twice", string(e.Path))
		}
		p := filepath.Join(root, string(e.Path))
		if err := os.MkdirAll(filepath.Dir(p), 0755); err != nil {
			return err
		}
		mt := time.Unix(e.Mtime, e.MtimeNs)
		switch e.Type {
		case "d":
			if err := os.MkdirAll(p, 0755); err != nil {
				return err
			}
			dirs = append(dirs, dirfix{p, e})
			continue
		case "f":
			if e.HardlinkTo != "" {
				links = append(links, [2]string{filepath.Join(root, string(e.HardlinkTo)), p})
				continue
			}
			if err := os.WriteFile(p, e.Content.Bytes(), 0600); err != nil {
				return err
			}
		case "l":
			if err := os.Symlink(string(e.Target), p); err != nil {
				return err
			}
		case "fifo":
			if err := unix.Mkfifo(p, 0600); err != nil {
				return err
			}
		case "sock":
			if err := mksock(p); err != nil {
				return err
			}
		case "chr":
			if err := unix.Mknod(p, unix.S_IFCHR|0600, int(e.Rdev)); err != nil {
				return err
			}
		case "blk":
			if err := unix.Mknod(p, unix.S_IFBLK|0600, int(e.Rdev)); err != nil {
				return err
			}
		default:
			return fmt.Errorf("fstree: unknown type %q", e.Type)
		}
		if e.Uid != 0 || e.Gid != 0 {
			if err := os.Lchown(p, e.Uid, e.Gid); err != nil {
				return err
			}
		}
		if e.Type != "l" {
			if err := unix.Chmod(p, e.Perm&0o7777); err != nil { // raw mode: setuid, setgid and sticky bits included
				return err
			}
			if err := os.Chtimes(p, mt, mt); err != nil {
				return err
			}
		} else {
			ts := []unix.Timespec{unix.NsecToTimespec(mt.UnixNano()), unix.NsecToTimespec(mt.UnixNano())}
			unix.UtimesNanoAt(unix.AT_FDCWD, p, ts, unix.AT_SYMLINK_NOFOLLOW)
		}
	}
	for i := len(dirs) - 1; i >= 0; i-- {
		d := dirs[i]
		if d.e.Uid != 0 || d.e.Gid != 0 {
			if err := os.Lchown(d.path, d.e.Uid, d.e.Gid); err != nil {
				return err
			}
		}
		if err := unix.Chmod(d.path, d.e.Perm&0o7777); err != nil {
			return err
		}
		mt := time.Unix(d.e.Mtime, d.e.MtimeNs)
		if err := os.Chtimes(d.path, mt, mt); err != nil {
			return err
		}
	}
	return nil
}

func mksock(p string) error {
	fd, err := unix.Socket(unix.AF_UNIX, unix.SOCK_DGRAM, 0)
	if err != nil {
		return err
	}
	defer unix.Close(fd)
	// bind has a 108 byte path limit: go through the parent directory fd
	dir, err := os.Open(filepath.Dir(p))
	if err != nil {
		return err
	}
	defer dir.Close()
	local := fmt.Sprintf("/proc/self/fd/%d/%s", dir.Fd(), filepath.Base(p))
	return unix.Bind(fd, &unix.SockaddrUnix{Name: local})
}

// Node is one object of a snapshot.
type Node struct {
	Type    string `json:"type"`
	Perm    uint32 `json:"perm"`
	Mtime   int64  `json:"mtime"`
	MtimeNs int64  `json:"mtime_ns"`
	Size    int64  `json:"size"`
	Sum     string `json:"sum,omitempty"` // sha256 of regular file content
	Target  string `json:"target,omitempty"`
	Rdev    uint64 `json:"rdev,omitempty"`
	Uid     uint32 `json:"uid"`
	Gid     uint32 `json:"gid"`
	Ino     uint64 `json:"-"`
	Nlink   uint64 `json:"-"`
}

// Snap maps relative path ("." is the root itself) to node.
type Snap map[string]Node

func HashBytes(b []byte) string {
	h := sha256.Sum256(b)
	return hex.EncodeToString(h[:16])
}

func typeOf(m fs.FileMode) string {
	switch {
	case m.IsRegular():
		return "f"
	case m.IsDir():
		return "d"
	case m&fs.ModeSymlink != 0:
		return "l"
	case m&fs.ModeNamedPipe != 0:
		return "fifo"
	case m&fs.ModeSocket != 0:
		return "sock"
	case m&fs.ModeCharDevice != 0:
		return "chr"
	case m&fs.ModeDevice != 0:
		return "blk"
	}
	return "?"
}

// LstatNode describes one path (without content hash unless withSum).
func LstatNode(p string, withSum bool) (Node, error) {
	fi, err := os.Lstat(p)
	if err != nil {
		return Node{}, err
	}
	st := fi.Sys().(*syscall.Stat_t)
	n := Node{
		Type:    typeOf(fi.Mode()),
		Perm:    uint32(st.Mode & 0o7777),
		Mtime:   fi.ModTime().Unix(),
		MtimeNs: int64(fi.ModTime().Nanosecond()),
		Size:    fi.Size(),
		Uid:     st.Uid,
		Gid:     st.Gid,
		Ino:     st.Ino,
		Nlink:   uint64(st.Nlink),
	}
	switch n.Type {
	case "f":
		if withSum && fi.Size() > 1<<28 {
			n.Sum = "unhashed-huge" // sparse boundary-size files are never read
		} else if withSum {
			b, err := os.ReadFile(p)
			if err != nil {
				// unreadable (mode 0 as non-root): record as such
				n.Sum = "unreadable:" + err.Error()
			} else {
				n.Sum = HashBytes(b)
			}
		}
	case "l":
		n.Target, _ = os.Readlink(p)
	case "chr", "blk":
		n.Rdev = uint64(st.Rdev)
	}
	if n.Type != "f" {
		n.Size = 0
	}
	return n, nil
}

// Snapshot walks root (not following symlinks) and hashes regular files.
func Snapshot(root string) (Snap, error) {
	snap := Snap{}
	err := filepath.WalkDir(root, func(p string, d fs.DirEntry, err error) error {
		if err != nil {
			if os.IsNotExist(err) {
				return nil
			}
			return err
		}
		rel, _ := filepath.Rel(root, p)
		n, err := LstatNode(p, true)
		if err != nil {
			if os.IsNotExist(err) {
				return nil
			}
			return err
		}
		snap[rel] = n
		return nil
	})
	if err != nil && os.IsNotExist(err) {
		return snap, nil
	}
	return snap, err
}

// Paths returns sorted keys.
func (s Snap) Paths() []string {
	ks := make([]string, 0, len(s))
	for k := range s {
		ks = append(ks, k)
	}
	sort.Strings(ks)
	return ks
}

// Diff lists human-readable differences between two snapshots on the chosen
// fields. fields: type sum perm mtime mtime_ns target rdev uid gid.
func Diff(a, b Snap, fields ...string) []string {
	var out []string
	want := map[string]bool{}
	for _, f := range fields {
		want[f] = true
	}
	for _, k := range a.Paths() {
		nb, ok := b[k]
		if !ok {
			out = append(out, fmt.Sprintf("%q: missing in second", k))
			continue
		}
		na := a[k]
		if na.Type != nb.Type {
			out = append(out, fmt.Sprintf("%q: type %s vs %s", k, na.Type, nb.Type))
			continue
		}
		if want["sum"] && (na.Sum != nb.Sum || na.Size != nb.Size) {
			out = append(out, fmt.Sprintf("%q: content %s/%d vs %s/%d", k, na.Sum, na.Size, nb.Sum, nb.Size))
		}
		if want["perm"] && na.Perm != nb.Perm && na.Type != "l" {
			out = append(out, fmt.Sprintf("%q: perm %o vs %o", k, na.Perm, nb.Perm))
		}
		if want["mtime"] && na.Mtime != nb.Mtime && na.Type != "l" {
			out = append(out, fmt.Sprintf("%q: mtime %d vs %d", k, na.Mtime, nb.Mtime))
		}
		if want["fmtime"] && na.Mtime != nb.Mtime && na.Type == "f" {
			out = append(out, fmt.Sprintf("%q: file mtime %d vs %d", k, na.Mtime, nb.Mtime))
		}
		if want["mtime_ns"] && na.MtimeNs != nb.MtimeNs && na.Type != "l" {
			out = append(out, fmt.Sprintf("%q: mtime_ns %d vs %d", k, na.MtimeNs, nb.MtimeNs))
		}
		if want["target"] && na.Target != nb.Target {
			out = append(out, fmt.Sprintf("%q: target %q vs %q", k, na.Target, nb.Target))
		}
		if want["rdev"] && na.Rdev != nb.Rdev {
			out = append(out, fmt.Sprintf("%q: rdev %d vs %d", k, na.Rdev, nb.Rdev))
		}
		if want["uid"] && na.Uid != nb.Uid {
			out = append(out, fmt.Sprintf("%q: uid %d vs %d", k, na.Uid, nb.Uid))
		}
		if want["gid"] && na.Gid != nb.Gid {
			out = append(out, fmt.Sprintf("%q: gid %d vs %d", k, na.Gid, nb.Gid))
		}
	}
	for _, k := range b.Paths() {
		if _, ok := a[k]; !ok {
			out = append(out, fmt.Sprintf("%q: extra in second", k))
		}
	}
	return out
}

// RemoveAll removes a tree even if it contains read-only directories.
func RemoveAll(root string) {
	filepath.WalkDir(root, func(p string, d fs.DirEntry, err error) error {
		if err == nil && d.IsDir() {
			os.Chmod(p, 0700)
		}
		return nil
	})
	os.RemoveAll(root)
}

// SpecSnap converts a tree spec into a snapshot-shaped map without touching
// the file system (implicit parents become 0755 directories; "." is the root).
// Sum is only filled when withSum is set.
func SpecSnap(t *Tree, withSum bool) Snap {
	s := Snap{".": Node{Type: "d", Perm: 0o755}}
	for _, e := range t.Entries {
		p := string(e.Path)
		for d := filepath.Dir(p); d != "." && d != "/"; d = filepath.Dir(d) {
			if _, ok := s[d]; !ok {
				s[d] = Node{Type: "d", Perm: 0o755}
			}
		}
		n := Node{Type: e.Type, Perm: e.Perm, Mtime: e.Mtime, MtimeNs: e.MtimeNs, Target: string(e.Target), Rdev: e.Rdev,
			Uid: uint32(e.Uid), Gid: uint32(e.Gid)}
		if e.Type == "f" {
			if withSum {
				b := e.Content.Bytes()
				n.Size = int64(len(b))
				n.Sum = HashBytes(b)
			} else if e.Content != nil {
				n.Size = e.Content.Size
			}
		}
		s[p] = n
	}
	return s
}

// CopyTree copies the tree under src to dst (which must not exist) as a
// process kill at this instant would leave it: every entry with its type,
// content, permissions, times and owner, including entries not listed
// anywhere (temporary files). Sockets become fresh sockets.
func CopyTree(src, dst string) error {
	type dirfix struct {
		path string
		st   unix.Stat_t
	}
	var dirs []dirfix
	fixMeta := func(p string, st *unix.Stat_t, link bool) error {
		if err := os.Lchown(p, int(st.Uid), int(st.Gid)); err != nil {
			return err
		}
		if !link {
			if err := unix.Chmod(p, st.Mode&0o7777); err != nil {
				return err
			}
		}
		ts := []unix.Timespec{st.Atim, st.Mtim}
		return unix.UtimesNanoAt(unix.AT_FDCWD, p, ts, unix.AT_SYMLINK_NOFOLLOW)
	}
	var walk func(rel string) error
	walk = func(rel string) error {
		sp, dp := filepath.Join(src, rel), filepath.Join(dst, rel)
		var st unix.Stat_t
		if err := unix.Lstat(sp, &st); err != nil {
			return err
		}
		switch st.Mode & unix.S_IFMT {
		case unix.S_IFDIR:
			if err := os.Mkdir(dp, 0o700); err != nil {
				return err
			}
			f, err := os.Open(sp)
			if err != nil {
				return err
			}
			names, err := f.Readdirnames(-1)
			f.Close()
			if err != nil {
				return err
			}
			sort.Strings(names)
			for _, n := range names {
				if err := walk(filepath.Join(rel, n)); err != nil {
					return err
				}
			}
			dirs = append(dirs, dirfix{dp, st})
			return nil
		case unix.S_IFREG:
			b, err := os.ReadFile(sp)
			if err != nil {
				return err
			}
			if err := os.WriteFile(dp, b, 0o600); err != nil {
				return err
			}
		case unix.S_IFLNK:
			t, err := os.Readlink(sp)
			if err != nil {
				return err
			}
			if err := os.Symlink(t, dp); err != nil {
				return err
			}
			return fixMeta(dp, &st, true)
		case unix.S_IFIFO:
			if err := unix.Mkfifo(dp, 0o600); err != nil {
				return err
			}
		case unix.S_IFSOCK:
			if err := mksock(dp); err != nil {
				return err
			}
		case unix.S_IFCHR, unix.S_IFBLK:
			if err := unix.Mknod(dp, st.Mode&unix.S_IFMT|0o600, int(st.Rdev)); err != nil {
				return err
			}
		default:
			return fmt.Errorf("fstree: CopyTree: unknown type %o at %q", st.Mode, sp)
		}
		return fixMeta(dp, &st, false)
	}
	if err := walk(""); err != nil {
		return err
	}
	for i := range dirs {
		if err := fixMeta(dirs[i].path, &dirs[i].st, false); err != nil {
			return err
		}
	}
	return nil
}
