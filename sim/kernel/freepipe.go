package kernel

import (
	"io"
	"net"
	"sync"
	"time"
)

// FreeConn is a free-running (unscheduled) in-memory duplex connection with a
// bounded buffer per direction, used only for the data-race runs of C18: the
// deterministic scheduler would order all sessions through its own
// synchronisation and hide races, so these runs use real concurrency.
type freeHalf struct {
	mu     sync.Mutex
	cond   *sync.Cond
	buf    []byte
	cap    int
	closed bool
}

func newFreeHalf(capacity int) *freeHalf {
	h := &freeHalf{cap: capacity}
	h.cond = sync.NewCond(&h.mu)
	return h
}

func (h *freeHalf) write(p []byte) (int, error) {
	n := 0
	h.mu.Lock()
	defer h.mu.Unlock()
	for len(p) > 0 {
		if h.closed {
			return n, io.ErrClosedPipe
		}
		room := h.cap - len(h.buf)
		if room <= 0 {
			h.cond.Wait()
			continue
		}
		if room > len(p) {
			room = len(p)
		}
		h.buf = append(h.buf, p[:room]...)
		p = p[room:]
		n += room
		h.cond.Broadcast()
	}
	return n, nil
}

func (h *freeHalf) read(p []byte) (int, error) {
	h.mu.Lock()
	defer h.mu.Unlock()
	for len(h.buf) == 0 {
		if h.closed {
			return 0, io.EOF
		}
		h.cond.Wait()
	}
	n := copy(p, h.buf)
	h.buf = h.buf[n:]
	h.cond.Broadcast()
	return n, nil
}

func (h *freeHalf) close() {
	h.mu.Lock()
	h.closed = true
	h.cond.Broadcast()
	h.mu.Unlock()
}

type FreeConn struct {
	r, w          *freeHalf
	local, remote net.Addr
}

func NewFreeConn(capacity int, clientAddr, serverAddr string) (client, server *FreeConn) {
	a, b := newFreeHalf(capacity), newFreeHalf(capacity)
	return &FreeConn{r: b, w: a, local: Addr{clientAddr}, remote: Addr{serverAddr}},
		&FreeConn{r: a, w: b, local: Addr{serverAddr}, remote: Addr{clientAddr}}
}

func (c *FreeConn) Read(p []byte) (int, error)         { return c.r.read(p) }
func (c *FreeConn) Write(p []byte) (int, error)        { return c.w.write(p) }
func (c *FreeConn) Close() error                       { c.r.close(); c.w.close(); return nil }
func (c *FreeConn) LocalAddr() net.Addr                { return c.local }
func (c *FreeConn) RemoteAddr() net.Addr               { return c.remote }
func (c *FreeConn) SetDeadline(t time.Time) error      { return nil }
func (c *FreeConn) SetReadDeadline(t time.Time) error  { return nil }
func (c *FreeConn) SetWriteDeadline(t time.Time) error { return nil }

// FreeListener hands FreeConns to Accept.
type FreeListener struct {
	ch     chan net.Conn
	closed chan struct{}
	once   sync.Once
}

func NewFreeListener() *FreeListener {
	return &FreeListener{ch: make(chan net.Conn, 256), closed: make(chan struct{})}
}

func (l *FreeListener) Accept() (net.Conn, error) {
	select {
	case c := <-l.ch:
		return c, nil
	case <-l.closed:
		return nil, net.ErrClosed
	}
}
func (l *FreeListener) Close() error   { l.once.Do(func() { close(l.closed) }); return nil }
func (l *FreeListener) Addr() net.Addr { return Addr{"10.9.9.9:873"} }

func (l *FreeListener) Dial(capacity int, remote string) *FreeConn {
	c, s := NewFreeConn(capacity, remote, "10.9.9.9:873")
	l.ch <- s
	return c
}
