package kernel

import (
	"errors"
	"fmt"
	"io"
	"net"
	"os"
	"sort"
	"sync"
	"syscall"
	"testing/synctest"
	"time"
)

// Chunking styles.
const (
	ChunkMax      = 0 // always move as much as possible
	ChunkOne      = 1 // always MinChunk bytes (1 by default)
	ChunkUniform  = 2 // uniform in [MinChunk, max]
	ChunkBoundary = 3 // biased towards tiny chunks / max-minus-a-few (splits inside integers)
)

// Scheduling biases.
const (
	BiasUniform   = 0
	BiasCanonical = 1 // always the first enabled action
	BiasStarve    = 2 // prefer actions on pipe StarvePipe until nothing there is enabled
	BiasBursty    = 3 // keep repeating the previous action's pipe with high probability
	BiasReverse   = 4 // always the last enabled action
)

// Unbounded capacity marker.
const Unbounded = -1

type Config struct {
	Chunk      int
	MinChunk   int
	Bias       int
	StarvePipe int
	MaxSteps   int
	Delays     bool // advance the fake clock by a drawn latency on some deliveries
}

// Action kinds (also used in the event log).
const (
	ActAccept     = 'A'
	ActDeliver    = 'D'
	ActRendezvous = 'R'
	ActEOF        = 'E'
	ActEPipe      = 'P'
)

type wres struct {
	n   int
	err error
}

type wop struct {
	data []byte
	off  int
	done chan wres
}

type rop struct {
	buf  []byte
	done chan wres
}

// Party is one simulated node/task known to the scheduler.
type Party struct {
	Name   string
	done   bool
	err    error
	frozen bool
	ends   []*End
	sim    *Sim
	// stall window in scheduler steps
	stallFrom, stallLen int
	// freezeAtStep >0: freeze when step reaches it
	freezeAtStep int
}

func (p *Party) Done() bool   { p.sim.mu.Lock(); defer p.sim.mu.Unlock(); return p.done }
func (p *Party) Err() error   { p.sim.mu.Lock(); defer p.sim.mu.Unlock(); return p.err }
func (p *Party) Frozen() bool { p.sim.mu.Lock(); defer p.sim.mu.Unlock(); return p.frozen }

type flip struct {
	off int64
	bit uint8
}

// Pipe is one direction of a connection.
type Pipe struct {
	ID   int
	Name string
	Cap  int // Unbounded, 0 = rendezvous, else bytes

	buf []byte
	wq  []*wop
	rq  []*rop

	wClosed bool // no more data will be written: reader gets EOF after draining
	rClosed bool // reader went away: writer gets EPIPE
	cut     bool // closed by an injected cut (error flavour differs)

	Accepted  int64 // bytes taken from writers so far
	Delivered int64 // bytes handed to readers so far

	cutAt       int64 // -1: none. When Accepted reaches cutAt the connection is lost.
	flips       []flip
	freezeRdAt  int64 // -1: none. When Delivered reaches it the reading party is frozen.
	NonParking  bool
	wParty      *Party
	rParty      *Party
	peer        *Pipe          // opposite direction of the same connection
	Tap         func(b []byte) // sees every byte as accepted (after flips), i.e. the wire content
	sim         *Sim
	FlipsFired  int
	CutFired    bool
	FreezeFired bool
}

type Outcome int

const (
	Finished   Outcome = iota // no pending operation left, all parties returned
	Deadlock                  // operations pending, none enabled, nobody frozen
	Frozen                    // operations pending, none enabled, because a party is frozen
	StepBudget                // MaxSteps exceeded
	HookStop                  // the step hook asked to stop (invariant violated)
)

func (o Outcome) String() string {
	return [...]string{"finished", "deadlock", "frozen", "step-budget", "hook-stop"}[o]
}

type Sim struct {
	mu      sync.Mutex
	cfg     Config
	tape    *Tape
	pipes   []*Pipe
	parties []*Party

	Step     int
	hash     uint64 // exact event log hash
	shape    uint64 // interleaving shape hash: (kind, pipe, length class)
	lastPipe int

	// OnStep is called at every quiescent point before the next action is
	// chosen. Returning an error stops the run (HookStop).
	OnStep  func(step int) error
	HookErr error

	Stats Stats

	shutdown bool
	clockAdv time.Duration
}

type Stats struct {
	Steps       int
	Actions     map[byte]int
	Bytes       int64
	CutFired    int
	FlipFired   int
	FreezeFired int
	StallSteps  int
	MaxEnabled  int
	SimTime     time.Duration
}

func New(cfg Config, tape *Tape) *Sim {
	if cfg.MaxSteps == 0 {
		cfg.MaxSteps = 2_000_000
	}
	if cfg.MinChunk < 1 {
		cfg.MinChunk = 1
	}
	return &Sim{cfg: cfg, tape: tape, hash: 0xcbf29ce484222325, shape: 0xcbf29ce484222325,
		Stats: Stats{Actions: map[byte]int{}}, lastPipe: -1}
}

func (s *Sim) Tape() *Tape    { return s.tape }
func (s *Sim) Config() Config { return s.cfg }

// Hash is the hash of the exact event log (kind, pipe, byte count per step).
// traceOut, if VERIF_TRACE names a file, receives one line per performed
// action (diagnosis of determinism divergences).
var traceOut = func() *os.File {
	if p := os.Getenv("VERIF_TRACE"); p != "" {
		f, _ := os.OpenFile(p, os.O_CREATE|os.O_WRONLY|os.O_APPEND, 0644)
		return f
	}
	return nil
}()

func (s *Sim) Hash() uint64 { return s.hash }

// Shape is the hash of the interleaving shape (kind, pipe, length class).
func (s *Sim) Shape() uint64 { return s.shape }

func mix(h uint64, vals ...uint64) uint64 {
	for _, v := range vals {
		for i := 0; i < 8; i++ {
			h ^= (v >> (8 * i)) & 0xff
			h *= 0x100000001b3
		}
	}
	return h
}

func lenClass(n int) uint64 {
	c := uint64(0)
	for n > 0 {
		c++
		n >>= 2
	}
	return c
}

// Addr is a simulated network address.
type Addr struct{ S string }

func (a Addr) Network() string { return "tcp" }
func (a Addr) String() string  { return a.S }

// End is one endpoint of a simulated connection. It implements net.Conn.
type End struct {
	sim    *Sim
	r, w   *Pipe
	party  *Party
	Local  net.Addr
	Remote net.Addr
	closed bool
}

// NewConn creates a connection. capAB is the capacity of the a→b direction.
func (s *Sim) NewConn(name string, capAB, capBA int) (a, b *End) {
	s.mu.Lock()
	defer s.mu.Unlock()
	ab := &Pipe{ID: len(s.pipes), Name: name + ":a>b", Cap: capAB, cutAt: -1, freezeRdAt: -1, sim: s}
	ba := &Pipe{ID: len(s.pipes) + 1, Name: name + ":b>a", Cap: capBA, cutAt: -1, freezeRdAt: -1, sim: s}
	ab.peer, ba.peer = ba, ab
	s.pipes = append(s.pipes, ab, ba)
	a = &End{sim: s, r: ba, w: ab, Local: Addr{"10.0.0.1:1000"}, Remote: Addr{"10.0.0.2:873"}}
	b = &End{sim: s, r: ab, w: ba, Local: Addr{"10.0.0.2:873"}, Remote: Addr{"10.0.0.1:1000"}}
	return a, b
}

// WPipe / RPipe expose the pipes for fault arming and taps.
func (e *End) WPipe() *Pipe { return e.w }
func (e *End) RPipe() *Pipe { return e.r }

// Own assigns the endpoint to a party: freezing/stalling the party disables
// the endpoint's operations and the endpoint is closed when the party returns.
func (p *Party) Own(e *End) {
	p.sim.mu.Lock()
	defer p.sim.mu.Unlock()
	e.party = p
	e.r.rParty = p
	e.w.wParty = p
	p.ends = append(p.ends, e)
}

// NewParty registers a party without starting a goroutine (see Go).
func (s *Sim) NewParty(name string) *Party {
	s.mu.Lock()
	defer s.mu.Unlock()
	p := &Party{Name: name, sim: s}
	s.parties = append(s.parties, p)
	return p
}

// Start runs f as the party's main goroutine. When f returns the party's
// endpoints are closed (as a process exit closes its descriptors).
func (p *Party) Start(f func() error) {
	go func() {
		err := f()
		p.sim.mu.Lock()
		p.done = true
		p.err = err
		ends := append([]*End(nil), p.ends...)
		p.sim.mu.Unlock()
		for _, e := range ends {
			e.Close()
		}
	}()
}

// Go = NewParty + Own + Start.
func (s *Sim) Go(name string, f func() error, ends ...*End) *Party {
	p := s.NewParty(name)
	for _, e := range ends {
		p.Own(e)
	}
	p.Start(f)
	return p
}

var ErrCut = &net.OpError{Op: "read", Net: "sim", Err: syscall.ECONNRESET}

func (e *End) Write(b []byte) (int, error) {
	s := e.sim
	w := e.w
	s.mu.Lock()
	if e.closed || w.wClosed {
		s.mu.Unlock()
		return 0, &net.OpError{Op: "write", Net: "sim", Err: net.ErrClosed}
	}
	if w.rClosed || s.shutdown {
		s.mu.Unlock()
		return 0, &net.OpError{Op: "write", Net: "sim", Err: syscall.EPIPE}
	}
	if len(b) == 0 {
		s.mu.Unlock()
		return 0, nil
	}
	if w.NonParking {
		w.acceptBytes(b)
		s.mu.Unlock()
		return len(b), nil
	}
	op := &wop{data: b, done: make(chan wres, 1)}
	w.wq = append(w.wq, op)
	s.mu.Unlock()
	res := <-op.done
	return res.n, res.err
}

func (e *End) Read(b []byte) (int, error) {
	s := e.sim
	r := e.r
	s.mu.Lock()
	if e.closed || r.rClosed && !r.cut {
		s.mu.Unlock()
		return 0, &net.OpError{Op: "read", Net: "sim", Err: net.ErrClosed}
	}
	if s.shutdown {
		s.mu.Unlock()
		return 0, io.EOF
	}
	if len(b) == 0 {
		s.mu.Unlock()
		return 0, nil
	}
	op := &rop{buf: b, done: make(chan wres, 1)}
	r.rq = append(r.rq, op)
	s.mu.Unlock()
	res := <-op.done
	return res.n, res.err
}

// Close closes both directions of this endpoint. Pending operations of the
// peer become EOF / EPIPE actions; pending operations on this endpoint (from
// other goroutines of the same party) fail at once.
func (e *End) Close() error {
	s := e.sim
	s.mu.Lock()
	if e.closed {
		s.mu.Unlock()
		return nil
	}
	e.closed = true
	e.w.wClosed = true
	e.r.rClosed = true
	// fail our own pending ops immediately (like closing an fd under a blocked call)
	wq, rq := e.w.wq, e.r.rq
	e.w.wq, e.r.rq = nil, nil
	s.mu.Unlock()
	for _, op := range wq {
		op.done <- wres{op.off, &net.OpError{Op: "write", Net: "sim", Err: net.ErrClosed}}
	}
	for _, op := range rq {
		op.done <- wres{0, &net.OpError{Op: "read", Net: "sim", Err: net.ErrClosed}}
	}
	return nil
}

// CloseWrite half-closes the connection (peer sees EOF after draining).
func (e *End) CloseWrite() error {
	s := e.sim
	s.mu.Lock()
	e.w.wClosed = true
	s.mu.Unlock()
	return nil
}

func (e *End) LocalAddr() net.Addr                { return e.Local }
func (e *End) RemoteAddr() net.Addr               { return e.Remote }
func (e *End) SetDeadline(t time.Time) error      { return nil }
func (e *End) SetReadDeadline(t time.Time) error  { return nil }
func (e *End) SetWriteDeadline(t time.Time) error { return nil }

// ---- faults ---------------------------------------------------------------

// CutAt arms a connection loss: after n bytes have been accepted on this pipe
// the whole connection (both directions) is lost. The n bytes are still
// delivered, then the reader sees ECONNRESET-like EOF; writers get EPIPE.
func (p *Pipe) CutAt(n int64) {
	p.sim.mu.Lock()
	p.cutAt = n
	if p.Accepted >= n {
		p.fireCut()
	}
	p.sim.mu.Unlock()
}

// FlipAt arms a single bit flip of byte off (0-based stream offset) in flight.
func (p *Pipe) FlipAt(off int64, bit uint8) {
	p.sim.mu.Lock()
	p.flips = append(p.flips, flip{off, bit & 7})
	sort.Slice(p.flips, func(i, j int) bool { return p.flips[i].off < p.flips[j].off })
	p.sim.mu.Unlock()
}

// FreezeReaderAt arms a freeze of the reading party at the instant it has been
// handed n bytes of this pipe (it is then parked in, or about to issue, the Read
// for byte n): the deterministic stand-in for SIGSTOP/SIGKILL/crash at byte n.
func (p *Pipe) FreezeReaderAt(n int64) {
	p.sim.mu.Lock()
	p.freezeRdAt = n
	p.sim.mu.Unlock()
}

func (p *Party) FreezeAtStep(step int) {
	p.sim.mu.Lock()
	p.freezeAtStep = step
	p.sim.mu.Unlock()
}

func (p *Party) Stall(from, length int) {
	p.sim.mu.Lock()
	p.stallFrom, p.stallLen = from, length
	p.sim.mu.Unlock()
}

// Freeze / Thaw immediately.
func (p *Party) Freeze() { p.sim.mu.Lock(); p.frozen = true; p.sim.mu.Unlock() }
func (p *Party) Thaw()   { p.sim.mu.Lock(); p.frozen = false; p.freezeAtStep = 0; p.sim.mu.Unlock() }

// must hold mu
func (p *Pipe) fireCut() {
	if p.CutFired {
		return
	}
	p.CutFired = true
	p.sim.Stats.CutFired++
	for _, q := range []*Pipe{p, p.peer} {
		q.wClosed = true
		q.rClosed = true
		q.cut = true
	}
	// the opposite direction loses what was still in flight
	p.peer.buf = nil
}

// must hold mu. Takes bytes into the buffer applying flips/taps. Returns how
// many bytes were taken (may be fewer than len(b) if a cut fires).
func (p *Pipe) acceptBytes(b []byte) int {
	n := len(b)
	if p.cutAt >= 0 && p.Accepted+int64(n) > p.cutAt {
		n = int(p.cutAt - p.Accepted)
		if n < 0 {
			n = 0
		}
	}
	start := len(p.buf)
	p.buf = append(p.buf, b[:n]...)
	seg := p.buf[start:]
	for len(p.flips) > 0 && p.flips[0].off < p.Accepted+int64(n) {
		f := p.flips[0]
		p.flips = p.flips[1:]
		if f.off >= p.Accepted {
			seg[f.off-p.Accepted] ^= 1 << f.bit
			p.FlipsFired++
			p.sim.Stats.FlipFired++
		}
	}
	if p.Tap != nil && n > 0 {
		p.Tap(seg)
	}
	p.Accepted += int64(n)
	p.sim.Stats.Bytes += int64(n)
	if p.cutAt >= 0 && p.Accepted >= p.cutAt {
		p.fireCut()
	}
	return n
}

// ---- scheduler --------------------------------------------------------------

type action struct {
	kind byte
	pipe *Pipe
}

func (s *Sim) partyBlocked(p *Party) bool {
	if p == nil {
		return false
	}
	if p.frozen {
		return true
	}
	if p.stallLen > 0 && s.Step >= p.stallFrom && s.Step < p.stallFrom+p.stallLen {
		return true
	}
	return false
}

// must hold mu
func (s *Sim) enabled() (acts []action, pending, blockedByFreeze, blockedByStall bool) {
	for _, p := range s.pipes {
		if len(p.wq) > 0 || len(p.rq) > 0 {
			pending = true
		}
		wBlocked := s.partyBlocked(p.wParty)
		rBlocked := s.partyBlocked(p.rParty)
		note := func(pb *Party) {
			if pb == nil {
				return
			}
			if pb.frozen {
				blockedByFreeze = true
			} else {
				blockedByStall = true
			}
		}
		if len(p.wq) > 0 {
			switch {
			case wBlocked:
				note(p.wParty)
			case p.rClosed:
				acts = append(acts, action{ActEPipe, p})
			case p.Cap == 0:
				if len(p.rq) > 0 {
					if rBlocked {
						note(p.rParty)
					} else {
						acts = append(acts, action{ActRendezvous, p})
					}
				}
			case p.Cap < 0 || len(p.buf) < p.Cap:
				acts = append(acts, action{ActAccept, p})
			}
		}
		if len(p.rq) > 0 {
			switch {
			case rBlocked:
				note(p.rParty)
			case len(p.buf) > 0:
				acts = append(acts, action{ActDeliver, p})
			case p.wClosed && len(p.wq) == 0:
				acts = append(acts, action{ActEOF, p})
			case p.wClosed && p.Cap == 0:
				acts = append(acts, action{ActEOF, p})
			}
		}
	}
	return
}

func (s *Sim) chunk(max int) int {
	if max <= 1 {
		return max
	}
	min := s.cfg.MinChunk
	if min > max {
		min = max
	}
	switch s.cfg.Chunk {
	case ChunkMax:
		return max
	case ChunkOne:
		return min
	case ChunkUniform:
		return max - s.tape.Draw(max-min+1)
	default: // ChunkBoundary
		switch s.tape.Draw(4) {
		case 0:
			return max
		case 1:
			k := min + s.tape.Draw(8)
			if k > max {
				k = max
			}
			return k
		case 2:
			return max - s.tape.Draw(max-min+1)
		default:
			k := max - 1 - s.tape.Draw(4)
			if k < min {
				k = min
			}
			return k
		}
	}
}

func (s *Sim) choose(acts []action) action {
	n := len(acts)
	if n == 1 && s.cfg.Bias != BiasUniform {
		return acts[0]
	}
	switch s.cfg.Bias {
	case BiasCanonical:
		return acts[0]
	case BiasReverse:
		return acts[n-1]
	case BiasStarve:
		// prefer anything that is NOT on the starved pipe; the starved
		// direction only moves when nothing else can.
		if s.tape.Draw(16) != 0 {
			var other []action
			for _, a := range acts {
				if a.pipe.ID != s.cfg.StarvePipe {
					other = append(other, a)
				}
			}
			if len(other) > 0 {
				return other[s.tape.Draw(len(other))]
			}
		}
		return acts[s.tape.Draw(n)]
	case BiasBursty:
		if s.lastPipe >= 0 && s.tape.Draw(8) != 0 {
			for _, a := range acts {
				if a.pipe.ID == s.lastPipe {
					return a
				}
			}
		}
		return acts[s.tape.Draw(n)]
	default:
		return acts[s.tape.Draw(n)]
	}
}

func cutErr(op string) error {
	return &net.OpError{Op: op, Net: "sim", Err: syscall.ECONNRESET}
}

// must hold mu
func (s *Sim) perform(a action) {
	p := a.pipe
	var n int
	switch a.kind {
	case ActAccept:
		op := p.wq[0]
		room := len(op.data) - op.off
		if p.Cap > 0 && p.Cap-len(p.buf) < room {
			room = p.Cap - len(p.buf)
		}
		k := s.chunk(room)
		n = p.acceptBytes(op.data[op.off : op.off+k])
		op.off += n
		if p.rClosed { // cut fired during accept
			p.wq = p.wq[1:]
			op.done <- wres{op.off, &net.OpError{Op: "write", Net: "sim", Err: syscall.EPIPE}}
		} else if op.off == len(op.data) {
			p.wq = p.wq[1:]
			op.done <- wres{op.off, nil}
		}
	case ActRendezvous:
		wo, ro := p.wq[0], p.rq[0]
		max := len(wo.data) - wo.off
		if len(ro.buf) < max {
			max = len(ro.buf)
		}
		k := s.chunk(max)
		n = p.acceptBytes(wo.data[wo.off : wo.off+k])
		wo.off += n
		m := copy(ro.buf, p.buf)
		p.buf = p.buf[m:]
		if len(p.buf) == 0 {
			p.buf = nil
		}
		p.Delivered += int64(m)
		if m > 0 {
			p.rq = p.rq[1:]
			ro.done <- wres{m, nil}
		}
		if p.rClosed {
			p.wq = p.wq[1:]
			wo.done <- wres{wo.off, &net.OpError{Op: "write", Net: "sim", Err: syscall.EPIPE}}
		} else if wo.off == len(wo.data) {
			p.wq = p.wq[1:]
			wo.done <- wres{wo.off, nil}
		}
		s.checkFreezeRd(p)
	case ActDeliver:
		op := p.rq[0]
		max := len(p.buf)
		if len(op.buf) < max {
			max = len(op.buf)
		}
		if p.freezeRdAt >= 0 && p.Delivered < p.freezeRdAt && p.Delivered+int64(max) > p.freezeRdAt {
			max = int(p.freezeRdAt - p.Delivered)
		}
		k := s.chunk(max)
		n = copy(op.buf[:k], p.buf)
		p.buf = p.buf[n:]
		if len(p.buf) == 0 {
			p.buf = nil
		}
		p.Delivered += int64(n)
		p.rq = p.rq[1:]
		op.done <- wres{n, nil}
		s.checkFreezeRd(p)
		if s.cfg.Delays && s.tape.Draw(8) == 0 {
			s.clockAdv += time.Duration(1+s.tape.Draw(50)) * time.Millisecond
		}
	case ActEOF:
		op := p.rq[0]
		p.rq = p.rq[1:]
		if p.cut {
			op.done <- wres{0, cutErr("read")}
		} else {
			op.done <- wres{0, io.EOF}
		}
	case ActEPipe:
		op := p.wq[0]
		p.wq = p.wq[1:]
		op.done <- wres{op.off, &net.OpError{Op: "write", Net: "sim", Err: syscall.EPIPE}}
	}
	s.hash = mix(s.hash, uint64(a.kind), uint64(p.ID), uint64(n))
	s.shape = mix(s.shape, uint64(a.kind), uint64(p.ID), lenClass(n))
	if traceOut != nil {
		fmt.Fprintf(traceOut, "%d %c pipe=%d n=%d\n", s.Step, rune(a.kind), p.ID, n)
	}
	s.lastPipe = p.ID
	s.Stats.Actions[a.kind]++
}

// must hold mu
func (s *Sim) checkFreezeRd(p *Pipe) {
	if p.freezeRdAt >= 0 && !p.FreezeFired && p.Delivered >= p.freezeRdAt && p.rParty != nil {
		p.FreezeFired = true
		p.rParty.frozen = true
		s.Stats.FreezeFired++
	}
}

// Run is the scheduler loop. It must be called from inside the synctest
// bubble that also contains every party. It returns when nothing is pending
// (Finished), nothing can move (Deadlock / Frozen), the step budget is used up,
// or the step hook reports a violation.
func (s *Sim) Run() Outcome {
	for {
		synctest.Wait()
		s.mu.Lock()
		if s.clockAdv > 0 {
			d := s.clockAdv
			s.clockAdv = 0
			s.Stats.SimTime += d
			s.mu.Unlock()
			time.Sleep(d) // fake clock: returns once everything is blocked again
			synctest.Wait()
			s.mu.Lock()
		}
		for _, p := range s.parties {
			if p.freezeAtStep > 0 && s.Step >= p.freezeAtStep && !p.frozen && !p.done {
				p.frozen = true
				s.Stats.FreezeFired++
			}
		}
		if s.OnStep != nil {
			s.mu.Unlock()
			err := s.OnStep(s.Step)
			s.mu.Lock()
			if err != nil {
				s.HookErr = err
				s.Stats.Steps = s.Step
				s.mu.Unlock()
				return HookStop
			}
		}
		acts, pending, byFreeze, byStall := s.enabled()
		if len(acts) > s.Stats.MaxEnabled {
			s.Stats.MaxEnabled = len(acts)
		}
		if len(acts) == 0 {
			if byStall && !byFreeze {
				// only stalled parties hold things up: let steps pass
				s.Step++
				s.Stats.StallSteps++
				s.mu.Unlock()
				continue
			}
			s.Stats.Steps = s.Step
			allDone := true
			for _, p := range s.parties {
				if !p.done {
					allDone = false
				}
			}
			s.mu.Unlock()
			switch {
			case byFreeze:
				return Frozen
			case pending || !allDone:
				return Deadlock
			default:
				return Finished
			}
		}
		if s.Step >= s.cfg.MaxSteps {
			s.Stats.Steps = s.Step
			s.mu.Unlock()
			return StepBudget
		}
		if byStall {
			s.Stats.StallSteps++
		}
		a := s.choose(acts)
		s.perform(a)
		s.Step++
		s.mu.Unlock()
	}
}

// Shutdown fails every pending and future operation so that all goroutines of
// the run can exit before the bubble ends.
func (s *Sim) Shutdown() {
	s.mu.Lock()
	s.shutdown = true
	var wqs []*wop
	var rqs []*rop
	for _, p := range s.pipes {
		wqs = append(wqs, p.wq...)
		rqs = append(rqs, p.rq...)
		p.wq, p.rq = nil, nil
		p.wClosed, p.rClosed = true, true
	}
	for _, p := range s.parties {
		p.frozen = false
	}
	s.mu.Unlock()
	for _, op := range wqs {
		op.done <- wres{op.off, &net.OpError{Op: "write", Net: "sim", Err: syscall.EPIPE}}
	}
	for _, op := range rqs {
		op.done <- wres{0, io.EOF}
	}
}

// PendingSummary describes what is stuck (for deadlock reports).
func (s *Sim) PendingSummary() string {
	s.mu.Lock()
	defer s.mu.Unlock()
	out := ""
	for _, p := range s.pipes {
		if len(p.wq) > 0 || len(p.rq) > 0 || len(p.buf) > 0 {
			out += fmt.Sprintf("[%s cap=%d buf=%d writers=%d readers=%d wclosed=%v rclosed=%v] ",
				p.Name, p.Cap, len(p.buf), len(p.wq), len(p.rq), p.wClosed, p.rClosed)
		}
	}
	for _, p := range s.parties {
		out += fmt.Sprintf("{%s done=%v frozen=%v} ", p.Name, p.done, p.frozen)
	}
	return out
}

// ---- listener -----------------------------------------------------------------

// Listener is a simulated net.Listener. Dial hands a new connection to Accept.
type Listener struct {
	sim    *Sim
	ch     chan *End
	closed chan struct{}
	once   sync.Once
	addr   Addr
}

func (s *Sim) Listen(addr string) *Listener {
	return &Listener{sim: s, ch: make(chan *End, 1024), closed: make(chan struct{}), addr: Addr{addr}}
}

func (l *Listener) Accept() (net.Conn, error) {
	select {
	case <-l.closed:
		return nil, net.ErrClosed
	default:
	}
	select {
	case e := <-l.ch:
		return e, nil
	case <-l.closed:
		return nil, net.ErrClosed
	}
}

func (l *Listener) Close() error {
	l.once.Do(func() { close(l.closed) })
	return nil
}

func (l *Listener) Addr() net.Addr { return l.addr }

// Dial creates a connection whose server end is handed to Accept and whose
// RemoteAddr (as seen by the server) is remote. capCS is client→server.
func (l *Listener) Dial(remote string, capCS, capSC int) *End {
	c, srv := l.sim.NewConn("conn:"+remote, capCS, capSC)
	c.Local, c.Remote = Addr{remote}, l.addr
	srv.Local, srv.Remote = l.addr, Addr{remote}
	l.ch <- srv
	return c
}

var _ net.Conn = (*End)(nil)
var _ net.Listener = (*Listener)(nil)
var _ = errors.New

// PeerView returns a view of the opposite endpoint of e (for arming faults on
// the direction e reads from when the real peer endpoint is not at hand). It
// must not be used for I/O.
func PeerView(e *End) *End { return &End{sim: e.sim, r: e.w, w: e.r} }

// Available reports how many bytes can be read from the endpoint right now
// without parking (a middlebox uses it to merge what has already arrived).
func (e *End) Available() int {
	e.sim.mu.Lock()
	defer e.sim.mu.Unlock()
	return len(e.r.buf)
}
