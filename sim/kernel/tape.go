// Package kernel is the deterministic simulator: a seeded choice tape, a
// simulated byte-stream transport whose every Read/Write is a scheduled event,
// a simulated listener, fault injection, and the scheduler loop that decides
// which parked operation proceeds next.
package kernel

// SplitMix64 is the only PRNG used by the simulator. One run seed is split
// into independent streams (workload, schedule, faults) with Derive.
type SplitMix64 struct{ s uint64 }

func NewRNG(seed uint64) *SplitMix64 { return &SplitMix64{s: seed} }

func (r *SplitMix64) Uint64() uint64 {
	r.s += 0x9e3779b97f4a7c15
	z := r.s
	z = (z ^ (z >> 30)) * 0xbf58476d1ce4e5b9
	z = (z ^ (z >> 27)) * 0x94d049bb133111eb
	return z ^ (z >> 31)
}

// Intn returns a value in [0,n). n<=0 yields 0.
func (r *SplitMix64) Intn(n int) int {
	if n <= 1 {
		return 0
	}
	return int(r.Uint64() % uint64(n))
}

func (r *SplitMix64) Int63n(n int64) int64 {
	if n <= 1 {
		return 0
	}
	return int64(r.Uint64() % uint64(n))
}

func (r *SplitMix64) Bool() bool { return r.Uint64()&1 == 1 }

// Chance returns true with probability num/den.
func (r *SplitMix64) Chance(num, den int) bool { return r.Intn(den) < num }

// Derive returns an independent stream labelled by tag.
func Derive(seed uint64, tag string) uint64 {
	h := seed ^ 0xcbf29ce484222325
	for i := 0; i < len(tag); i++ {
		h ^= uint64(tag[i])
		h *= 0x100000001b3
	}
	r := SplitMix64{s: h}
	return r.Uint64()
}

// Tape is the schedule choice source. Every scheduling decision (which enabled
// action, how many bytes) is one Draw. With Fixed set, draws come from the
// recorded list (beyond its end: 0 = first enabled action / largest chunk, the
// canonical schedule); otherwise from the PRNG. All draws are recorded so a
// violation can be written out as an explicit, replayable schedule.
type Tape struct {
	rng    *SplitMix64
	Fixed  []uint32
	useFix bool
	pos    int
	Rec    []uint32
	MaxRec int
}

func NewTape(seed uint64) *Tape { return &Tape{rng: NewRNG(seed), MaxRec: 1 << 22} }

func NewFixedTape(fixed []uint32) *Tape {
	return &Tape{Fixed: fixed, useFix: true, MaxRec: 1 << 22}
}

// Draw returns a value in [0,n).
func (t *Tape) Draw(n int) int {
	if n <= 0 {
		n = 1
	}
	var v uint32
	if t.useFix {
		if t.pos < len(t.Fixed) {
			v = t.Fixed[t.pos] % uint32(n)
		}
	} else {
		v = uint32(t.rng.Uint64() % uint64(n))
	}
	t.pos++
	if len(t.Rec) < t.MaxRec {
		t.Rec = append(t.Rec, v)
	}
	return int(v)
}

func (t *Tape) Draws() int { return t.pos }
