// vcheck is the driver: it rebuilds the simulation worker from /repo's current
// working tree, farms seeded runs out to worker processes (crash isolation),
// minimises and writes replay files for violations, matches known findings and
// writes the evidence file.
package main

import (
	"bufio"
	"bytes"
	"encoding/json"
	"fmt"
	"io"
	"os"
	"os/exec"
	"path/filepath"
	"regexp"
	"sort"
	"strconv"
	"strings"
	"sync"
	"syscall"
	"time"
)

const verifRoot = "/verif"

type Job struct {
	Prop     string          `json:"prop"`
	Seed     uint64          `json:"seed"`
	Tier     string          `json:"tier"`
	Index    int             `json:"index"`
	Scenario json.RawMessage `json:"scenario,omitempty"`
	Scratch  string          `json:"scratch"`
	WantTape bool            `json:"want_tape,omitempty"`
	DumpOnly bool            `json:"dump_only,omitempty"`
}

type Violation struct {
	Kind      string `json:"kind"`
	Signature string `json:"signature"`
	Detail    string `json:"detail"`
}

type Result struct {
	Prop         string          `json:"prop"`
	Seed         uint64          `json:"seed"`
	Index        int             `json:"index"`
	Invalid      string          `json:"invalid,omitempty"`
	Inconclusive string          `json:"inconclusive,omitempty"`
	Violation    *Violation      `json:"violation,omitempty"`
	Scenario     json.RawMessage `json:"scenario,omitempty"`
	Key          string          `json:"key"`
	NonTrivial   bool            `json:"nontrivial"`
	Recycle      bool            `json:"recycle,omitempty"`
	Sessions     int             `json:"sessions"`
	Steps        int             `json:"steps"`
	Bytes        int64           `json:"bytes"`
	SimTimeMs    int64           `json:"sim_ms"`
	Faults       map[string]int  `json:"faults,omitempty"`
	Probes       map[string]int  `json:"probes,omitempty"`
	Shapes       []uint64        `json:"shapes,omitempty"`
	Hashes       []uint64        `json:"hashes,omitempty"`
	Sample       json.RawMessage `json:"sample,omitempty"`
	Exhaustive   bool            `json:"exhaustive,omitempty"`
}

// ---- worker process management ------------------------------------------------

type ring struct {
	mu  sync.Mutex
	buf []byte
	// sigquit: a goroutine dump caused by SIGQUIT began (its first line may
	// have been pushed out of the ring by the dump itself)
	sigquit bool
}

func (r *ring) Write(p []byte) (int, error) {
	r.mu.Lock()
	defer r.mu.Unlock()
	if bytes.Contains(p, []byte("SIGQUIT: quit")) {
		r.sigquit = true
	}
	r.buf = append(r.buf, p...)
	if len(r.buf) > 256<<10 {
		r.buf = r.buf[len(r.buf)-128<<10:]
	}
	return len(p), nil
}
func (r *ring) String() string   { r.mu.Lock(); defer r.mu.Unlock(); return string(r.buf) }
func (r *ring) Reset()           { r.mu.Lock(); r.buf = r.buf[:0]; r.sigquit = false; r.mu.Unlock() }
func (r *ring) SawSIGQUIT() bool { r.mu.Lock(); defer r.mu.Unlock(); return r.sigquit }

type worker struct {
	id      int
	bin     string
	env     []string
	cmd     *exec.Cmd
	stdin   io.WriteCloser
	results *bufio.Reader
	resFile *os.File
	stderr  *ring
	scratch string
}

func (w *worker) start() error {
	pr, pw, err := os.Pipe()
	if err != nil {
		return err
	}
	w.stderr = &ring{}
	cmd := exec.Command(w.bin, "-test.run", "^TestWorker$", "-test.timeout", "0", "-test.count", "1")
	cmd.Env = append(os.Environ(), "VERIF_WORKER=1", "GOMEMLIMIT=3GiB")
	cmd.Env = append(cmd.Env, w.env...)
	cmd.ExtraFiles = []*os.File{pw}
	cmd.Stderr = w.stderr
	cmd.Stdout = w.stderr
	cmd.Dir = w.scratch
	stdin, err := cmd.StdinPipe()
	if err != nil {
		return err
	}
	if err := cmd.Start(); err != nil {
		return err
	}
	pw.Close()
	w.cmd, w.stdin, w.resFile, w.results = cmd, stdin, pr, bufio.NewReaderSize(pr, 1<<20)
	return nil
}

func (w *worker) stop() {
	if w.cmd == nil {
		return
	}
	w.stdin.Close()
	done := make(chan struct{})
	go func() { w.cmd.Wait(); close(done) }()
	select {
	case <-done:
	case <-time.After(3 * time.Second):
		w.cmd.Process.Kill()
		<-done
	}
	w.resFile.Close()
	w.cmd = nil
}

func (w *worker) kill() {
	if w.cmd == nil {
		return
	}
	w.cmd.Process.Kill()
	w.cmd.Wait()
	w.stdin.Close()
	w.resFile.Close()
	w.cmd = nil
}

var reRepoFrame = regexp.MustCompile(`(?m)^\s+/repo/([^\s:]+):\d+`)
var reDigits = regexp.MustCompile(`[0-9]+`)

func crashSignature(stderr string, exitErr error) (kind, sig, detail string) {
	idx := strings.LastIndex(stderr, "panic: ")
	fidx := strings.LastIndex(stderr, "fatal error: ")
	if idx < 0 && fidx >= 0 {
		idx = fidx
	}
	if ridx := strings.Index(stderr, "WARNING: DATA RACE"); ridx >= 0 {
		d := stderr[ridx:]
		if len(d) > 5000 {
			d = d[:5000]
		}
		frames := reRepoFrame.FindAllStringSubmatch(d, 2)
		s := "data race"
		for _, f := range frames {
			s += " " + f[1]
		}
		return "data-race", s, d
	}
	if idx >= 0 {
		d := stderr[idx:]
		if len(d) > 5000 {
			d = d[:5000]
		}
		msg := d
		if nl := strings.IndexByte(msg, '\n'); nl >= 0 {
			msg = msg[:nl]
		}
		msg = reDigits.ReplaceAllString(msg, "#")
		if len(msg) > 120 {
			msg = msg[:120]
		}
		frame := ""
		// first /repo frame after the goroutine header
		if m := reRepoFrame.FindStringSubmatch(d); m != nil {
			frame = m[1]
		}
		return "process-crash", msg + " @ " + frame, d
	}
	code := "?"
	if exitErr != nil {
		code = exitErr.Error()
	} else {
		code = "exit status 0"
	}
	t := stderr
	if len(t) > 3000 {
		t = t[len(t)-3000:]
	}
	return "process-exit", "process exited: " + code, "worker process exited without a result (" + code + "); last output:\n" + t
}

func tailStr(s string, n int) string {
	if len(s) > n {
		return s[len(s)-n:]
	}
	return s
}

// rssBytes returns the resident set size of the worker process (0 if unknown).
func (w *worker) rssBytes() int64 {
	if w.cmd == nil || w.cmd.Process == nil {
		return 0
	}
	b, err := os.ReadFile(fmt.Sprintf("/proc/%d/statm", w.cmd.Process.Pid))
	if err != nil {
		return 0
	}
	f := strings.Fields(string(b))
	if len(f) < 2 {
		return 0
	}
	pages, _ := strconv.ParseInt(f[1], 10, 64)
	return pages * int64(os.Getpagesize())
}

// run executes one job; crashed reports that the worker died or was killed.
func (w *worker) run(job *Job, timeout time.Duration) (res *Result, crashed bool) {
	if w.cmd == nil {
		if err := w.start(); err != nil {
			return &Result{Inconclusive: "worker start: " + err.Error()}, false
		}
	}
	w.stderr.Reset()
	job.Scratch = filepath.Join(w.scratch, "run")
	b, _ := json.Marshal(job)
	b = append(b, '\n')
	type rd struct {
		line []byte
		err  error
	}
	ch := make(chan rd, 1)
	go func() {
		line, err := w.results.ReadBytes('\n')
		ch <- rd{line, err}
	}()
	if _, err := w.stdin.Write(b); err != nil {
		// process died before/while reading
	}
	select {
	case r := <-ch:
		if r.err != nil || len(r.line) == 0 {
			var exitErr error
			done := make(chan struct{})
			go func() { exitErr = w.cmd.Wait(); close(done) }()
			select {
			case <-done:
			case <-time.After(5 * time.Second):
				w.cmd.Process.Kill()
				<-done
			}
			w.stdin.Close()
			w.resFile.Close()
			w.cmd = nil
			stderrText := w.stderr.String()
			if (exitErr != nil && strings.Contains(exitErr.Error(), "signal: killed")) ||
				strings.Contains(stderrText, "fatal error: runtime: out of memory") ||
				strings.Contains(stderrText, "fatal error: out of memory") ||
				strings.Contains(stderrText, "runtime: cannot allocate memory") ||
				strings.Contains(stderrText, "SIGQUIT: quit") || w.stderr.SawSIGQUIT() || (exitErr != nil && strings.Contains(exitErr.Error(), "signal: terminated")) {
				// (SIGQUIT/SIGTERM from outside: an operator, like the SIGQUIT that
				// hit a worker of the seed-31 thorough sweep while another job was
				// being debugged)
				// SIGKILL cannot come from the code under test: it is the kernel's
				// out-of-memory killer (the sandbox has no memory limit and the
				// scratch trees live in tmpfs) or an operator. Resource exhaustion
				// is outside every property here, so this is never a violation.
				return &Result{Prop: job.Prop, Seed: job.Seed, Index: job.Index,
					Inconclusive: fmt.Sprintf("worker killed / out of memory (%v) in job seed=%d index=%d; last output: %s", exitErr, job.Seed, job.Index, firstN(tailStr(stderrText, 600), 600))}, true
			}
			kind, sig, detail := crashSignature(stderrText, exitErr)
			return &Result{Prop: job.Prop, Seed: job.Seed, Index: job.Index,
				Violation: &Violation{Kind: kind, Signature: sig, Detail: detail}}, true
		}
		var res Result
		if err := json.Unmarshal(r.line, &res); err != nil {
			return &Result{Inconclusive: "bad result line: " + err.Error()}, false
		}
		// a data race report does not kill the process unless halt_on_error
		return &res, false
	case <-time.After(timeout):
		// collect goroutine dump for diagnosis
		w.cmd.Process.Signal(syscall.SIGQUIT)
		time.Sleep(200 * time.Millisecond)
		w.kill()
		<-ch
		t := w.stderr.String()
		if q := strings.Index(t, "SIGQUIT: quit"); q >= 0 {
			// the goroutine that was running comes first in the dump
			t = firstN(t[q:], 3000)
		} else if len(t) > 3000 {
			t = t[len(t)-3000:]
		}
		return &Result{Prop: job.Prop, Seed: job.Seed, Index: job.Index,
			Inconclusive: fmt.Sprintf("watchdog: no result within %v (job seed=%d index=%d); last output: %s", timeout, job.Seed, job.Index, t)}, true
	}
}

// ---- known findings -------------------------------------------------------------

type Finding struct {
	Property  string `json:"property"`
	Kind      string `json:"kind"`
	Signature string `json:"signature"`        // substring of the violation signature
	Detail    string `json:"detail,omitempty"` // optional: substring that must occur in the violation detail
	Trigger   string `json:"trigger"`          // the specific input / call site / history that fails
	Status    string `json:"status"`           // open | fixed
	Commit    string `json:"commit,omitempty"`
}

func loadFindings() []Finding {
	var fs struct {
		Findings []Finding `json:"findings"`
	}
	b, err := os.ReadFile(filepath.Join(verifRoot, "known_findings.json"))
	if err != nil {
		return nil
	}
	if err := json.Unmarshal(b, &fs); err != nil {
		fmt.Fprintf(os.Stderr, "known_findings.json: %v\n", err)
		os.Exit(2)
	}
	return fs.Findings
}

func matchFinding(fs []Finding, prop string, v *Violation) *Finding {
	for i := range fs {
		f := &fs[i]
		if f.Status != "open" || f.Property != prop || (f.Kind != "" && f.Kind != v.Kind) {
			continue
		}
		if (f.Signature != "" && f.Detail == "" && strings.Contains(v.Signature, f.Signature)) || (f.Detail != "" && strings.Contains(v.Detail, f.Detail) && (f.Signature == "" || strings.Contains(v.Signature, f.Signature))) {
			return f
		}
	}
	return nil
}

// loadCorpus returns the scenarios of /verif/corpus/<prop>/*.json (replay files
// of earlier findings and directed cases): every run re-executes them first.
func loadCorpus(prop string) []json.RawMessage {
	if os.Getenv("VERIF_NO_CORPUS") != "" {
		return nil // sensitivity experiments: random search only
	}
	files, _ := filepath.Glob(filepath.Join(verifRoot, "corpus", prop, "*.json"))
	sort.Strings(files)
	var out []json.RawMessage
	for _, f := range files {
		b, err := os.ReadFile(f)
		if err != nil {
			continue
		}
		var rp Replay
		if json.Unmarshal(b, &rp) == nil && len(rp.Scenario) > 0 {
			out = append(out, rp.Scenario)
		}
	}
	return out
}

// ---- build -----------------------------------------------------------------------

func sh(dir string, env []string, name string, args ...string) (string, error) {
	cmd := exec.Command(name, args...)
	cmd.Dir = dir
	cmd.Env = append(os.Environ(), env...)
	out, err := cmd.CombinedOutput()
	return string(out), err
}

func buildWorker(meta *PropMeta, race bool) (string, error) {
	name := "worker"
	tags := "verif"
	if meta.ExtraTags != "" {
		tags += "," + meta.ExtraTags
		name += "-" + strings.ReplaceAll(meta.ExtraTags, ",", "-")
	}
	args := []string{"test", "-c", "-tags", tags}
	if race {
		args = append(args, "-race")
		name += "-race"
	}
	os.MkdirAll(filepath.Join(verifRoot, ".build"), 0755)
	repo := "/repo"
	if alt := os.Getenv("VERIF_REPO"); alt != "" && alt != "/repo" {
		// evaluate another checkout (seeded changes in scratch worktrees)
		// without touching /repo: alternate go.mod with another replace path
		repo = alt
		tag := fmt.Sprintf("%x", splitmix(uint64(len(alt))*1315423911+hashStr(alt)))[:8]
		name += "-alt" + tag
		mod, err := os.ReadFile(filepath.Join(verifRoot, "sim", "go.mod"))
		if err != nil {
			return "", err
		}
		altMod := filepath.Join(verifRoot, ".build", "alt-"+tag+".mod")
		os.WriteFile(altMod, []byte(strings.Replace(string(mod), "=> /repo", "=> "+alt, 1)), 0644)
		if b, err := os.ReadFile(filepath.Join(alt, "go.sum")); err == nil {
			os.WriteFile(filepath.Join(verifRoot, ".build", "alt-"+tag+".sum"), b, 0644)
		}
		args = append(args, "-modfile", altMod)
	}
	out := filepath.Join(verifRoot, ".build", name+".test")
	args = append(args, "-o", out, "./worker")
	// go.sum of the harness module follows the repository's
	if b, err := os.ReadFile(filepath.Join(repo, "go.sum")); err == nil && repo == "/repo" {
		os.WriteFile(filepath.Join(verifRoot, "sim", "go.sum"), b, 0644)
	}
	o, err := sh(filepath.Join(verifRoot, "sim"), nil, "go", args...)
	if err != nil {
		return "", fmt.Errorf("build failed: %v\n%s", err, o)
	}
	return out, nil
}

// ---- main ------------------------------------------------------------------------

func hashStr(s string) uint64 {
	h := uint64(1469598103934665603)
	for i := 0; i < len(s); i++ {
		h ^= uint64(s[i])
		h *= 1099511628211
	}
	return h
}

func splitmix(x uint64) uint64 {
	x += 0x9e3779b97f4a7c15
	z := x
	z = (z ^ (z >> 30)) * 0xbf58476d1ce4e5b9
	z = (z ^ (z >> 27)) * 0x94d049bb133111eb
	return z ^ (z >> 31)
}

func usage() {
	fmt.Fprintln(os.Stderr, `usage:
  vcheck run <property> [--tier quick|thorough] [--runs N] [--budget 60s] [--workers N]
  vcheck replay <replay-file>
  vcheck determinism <property> [--seeds N]
  vcheck dump <property> <seed> [index]`)
	os.Exit(2)
}

func main() {
	if len(os.Args) < 3 {
		usage()
	}
	switch os.Args[1] {
	case "run":
		os.Exit(cmdRun(os.Args[2], os.Args[3:]))
	case "replay":
		os.Exit(cmdReplay(os.Args[2]))
	case "determinism":
		os.Exit(cmdDeterminism(os.Args[2], os.Args[3:]))
	case "dump":
		os.Exit(cmdDump(os.Args[2:]))
	default:
		usage()
	}
}

type options struct {
	tier    string
	runs    int
	budget  time.Duration
	workers int
	seeds   int
}

func parseOpts(args []string) options {
	o := options{tier: os.Getenv("VERIF_TIER"), workers: 16}
	if o.tier == "" {
		o.tier = "quick"
	}
	for i := 0; i < len(args); i++ {
		next := func() string {
			i++
			if i >= len(args) {
				usage()
			}
			return args[i]
		}
		switch args[i] {
		case "--tier":
			o.tier = next()
		case "--runs":
			o.runs, _ = strconv.Atoi(next())
		case "--budget":
			o.budget, _ = time.ParseDuration(next())
		case "--workers":
			o.workers, _ = strconv.Atoi(next())
		case "--seeds":
			o.seeds, _ = strconv.Atoi(next())
		default:
			usage()
		}
	}
	return o
}

func baseSeed() uint64 {
	if s := os.Getenv("VERIF_SEED"); s != "" {
		if v, err := strconv.ParseUint(s, 10, 64); err == nil {
			return v
		}
		if v, err := strconv.ParseInt(s, 10, 64); err == nil {
			return uint64(v)
		}
	}
	return 1
}

func scratchBase() string {
	s := os.Getenv("VERIF_SCRATCH")
	if s == "" {
		s = "/dev/shm/verif-scratch"
	}
	if err := os.MkdirAll(s, 0755); err != nil {
		s = filepath.Join(os.TempDir(), "verif-scratch")
		os.MkdirAll(s, 0755)
	}
	// fixed-width names: path lengths end up in error messages on the wire,
	// and the event-log hashes of the determinism self-check cover lengths
	for i := 0; i < 1000; i++ {
		d := filepath.Join(s, fmt.Sprintf("d%010d", (uint64(time.Now().UnixNano())+uint64(os.Getpid())*7919+uint64(i)*104729)%10_000_000_000))
		if err := os.Mkdir(d, 0755); err == nil {
			return d
		}
	}
	fmt.Fprintln(os.Stderr, "cannot create a scratch directory under", s)
	os.Exit(2)
	return ""
}

func cleanupScratch(dir string) {
	// read-only directories may be left behind by killed workers
	filepath.Walk(dir, func(p string, fi os.FileInfo, err error) error {
		if err == nil && fi.IsDir() {
			os.Chmod(p, 0700)
		}
		return nil
	})
	os.RemoveAll(dir)
}

type classKey struct{ kind, sig string }

type aggregate struct {
	evaluations  int
	sessions     int
	keys         map[string]bool
	nontrivial   map[string]bool
	steps        int64
	bytes        int64
	simMs        int64
	faults       map[string]int
	probes       map[string]int
	shapes       map[uint64]bool
	samples      []json.RawMessage
	inconclusive []string
	invalid      int
	violations   map[classKey]*Result
	known        map[string]int
	exhaustive   bool
}

func newAgg() *aggregate {
	return &aggregate{keys: map[string]bool{}, nontrivial: map[string]bool{}, faults: map[string]int{}, probes: map[string]int{},
		shapes: map[uint64]bool{}, violations: map[classKey]*Result{}, known: map[string]int{}}
}

func cmdRun(prop string, args []string) int {
	o := parseOpts(args)
	meta, ok := Meta[prop]
	if !ok {
		fmt.Fprintf(os.Stderr, "unknown property %s\n", prop)
		return 2
	}
	tc := meta.Quick
	if o.tier == "thorough" {
		tc = meta.Thorough
	}
	if o.runs > 0 {
		tc.Runs = o.runs
	}
	if o.budget > 0 {
		tc.Budget = o.budget
	}
	start := time.Now()
	seed := baseSeed()
	fmt.Printf("VERIF_SEED=%d property=%s tier=%s runs<=%d budget=%v workers=%d\n", seed, prop, o.tier, tc.Runs, tc.Budget, o.workers)

	bin, err := buildWorker(&meta, false)
	if err != nil {
		fmt.Fprintln(os.Stderr, err)
		return 2
	}
	var raceBin string
	if meta.RaceFraction > 0 {
		raceBin, err = buildWorker(&meta, true)
		if err != nil {
			fmt.Fprintln(os.Stderr, err)
			return 2
		}
	}
	buildS := time.Since(start).Seconds()

	scratch := scratchBase()
	defer cleanupScratch(scratch)
	findings := loadFindings()
	agg := newAgg()
	var mu sync.Mutex
	next := 0
	corpus := loadCorpus(prop)
	tc.Runs += len(corpus)
	deadline := time.Now().Add(tc.Budget) // the budget covers the runs, not the build
	stop := false
	var wg sync.WaitGroup
	nw := o.workers
	if tc.Runs < nw {
		nw = tc.Runs
	}
	for i := 0; i < nw; i++ {
		wg.Add(1)
		go func(id int) {
			defer wg.Done()
			wbin := bin
			env := append([]string{}, meta.Env...)
			if raceBin != "" && id < int(float64(nw)*meta.RaceFraction+0.999) {
				wbin = raceBin
				env = append(env, "GORACE=halt_on_error=1", "VERIF_RACE=1", fmt.Sprintf("GOMAXPROCS=%d", []int{1, 4, 16}[id%3]))
			}
			w := &worker{id: id, bin: wbin, env: env, scratch: filepath.Join(scratch, fmt.Sprintf("w%02d", id))}
			os.MkdirAll(w.scratch, 0755)
			if meta.NonRootFraction > 0 && os.Getuid() == 0 && id >= nw-int(float64(nw)*meta.NonRootFraction+0.999) && wbin == bin {
				// unprivileged worker: runs as nobody in a world-writable scratch directory
				os.Chmod(scratch, 0755)
				os.Chmod(filepath.Dir(scratch), 0755)
				os.Chmod(w.scratch, 0777)
				w.env = append(w.env, "VERIF_SETUID=65534", "HOME="+w.scratch)
			}
			defer w.stop()
			special := len(w.env) > len(meta.Env) // race / unprivileged worker
			jobsDone := 0
			for {
				mu.Lock()
				if stop || next >= tc.Runs || time.Now().After(deadline) {
					mu.Unlock()
					return
				}
				if special && next < len(corpus) {
					// corpus scenarios are replayed by the plain root workers
					mu.Unlock()
					time.Sleep(20 * time.Millisecond)
					continue
				}
				idx := next
				next++
				mu.Unlock()
				job := &Job{Prop: prop, Seed: splitmix(seed*1_000_003 + uint64(idx)), Tier: o.tier, Index: idx}
				if idx < len(corpus) {
					job.Scenario = corpus[idx]
				}
				if meta.MaxJobsPerWorker > 0 && jobsDone > 0 && jobsDone%meta.MaxJobsPerWorker == 0 {
					w.stop() // fresh process (e.g. landlock layers accumulate per daemon start)
				} else if w.rssBytes() > 1500<<20 {
					w.stop() // keep the pool's memory bounded: the sandbox has no limit of its own
				}
				jobsDone++
				res, crashed := w.run(job, tc.JobTimeout)
				if crashed {
					cleanupScratch(filepath.Join(w.scratch, "run"))
				} else if res.Recycle {
					w.stop() // the worker asked for a fresh process
				}
				mu.Lock()
				agg.add(res)
				if res.Violation != nil {
					if f := matchFinding(findings, prop, res.Violation); f != nil {
						agg.known[f.Trigger]++
					} else {
						k := classKey{res.Violation.Kind, res.Violation.Signature}
						if _, ok := agg.violations[k]; !ok {
							r := *res
							r.Seed, r.Index = job.Seed, idx
							agg.violations[k] = &r
						}
						if len(agg.violations) >= 3 {
							stop = true
						}
					}
				}
				mu.Unlock()
			}
		}(i)
	}
	wg.Wait()
	runWall := time.Since(start).Seconds() - buildS

	// known findings
	var knownKeys []string
	for k := range agg.known {
		knownKeys = append(knownKeys, k)
	}
	sort.Strings(knownKeys)
	for _, k := range knownKeys {
		fmt.Printf("KNOWN-FINDING: property=%s %s (hit %d times)\n", prop, k, agg.known[k])
	}

	// new violations: minimise, write replay files
	exit := 0
	var vkeys []classKey
	for k := range agg.violations {
		vkeys = append(vkeys, k)
	}
	sort.Slice(vkeys, func(i, j int) bool { return vkeys[i].kind+vkeys[i].sig < vkeys[j].kind+vkeys[j].sig })
	for n, k := range vkeys {
		r := agg.violations[k]
		path := minimiseAndWrite(prop, o.tier, bin, meta, scratch, r, n)
		fmt.Printf("VIOLATION property=%s replay=%s\n", prop, path)
		fmt.Printf("  kind=%s signature=%q seed=%d index=%d\n  %s\n", k.kind, k.sig, r.Seed, r.Index, strings.ReplaceAll(firstN(r.Violation.Detail, 1500), "\n", "\n  "))
		exit = 1
	}

	inconcl := len(agg.inconclusive)
	writeEvidence(prop, o.tier, seed, meta, agg, time.Since(start).Seconds(), runWall, len(vkeys))
	fmt.Printf("property=%s tier=%s runs=%d sessions=%d distinct_nontrivial=%d steps=%d inconclusive=%d known=%d violations=%d wall=%.1fs (build %.1fs)\n",
		prop, o.tier, agg.evaluations, agg.sessions, len(agg.nontrivial), agg.steps, inconcl, len(agg.known), len(vkeys), time.Since(start).Seconds(), buildS)
	for i, r := range agg.inconclusive {
		if i == 3 {
			break
		}
		fmt.Fprintf(os.Stderr, "inconclusive run: %s\n", strings.ReplaceAll(firstN(r, 300), "\n", " | "))
	}
	if exit == 0 && agg.evaluations > 0 && inconcl*20 > agg.evaluations {
		fmt.Fprintf(os.Stderr, "too many inconclusive runs (%d of %d): %s\n", inconcl, agg.evaluations, firstN(agg.inconclusive[0], 800))
		return 2
	}
	if exit == 0 && agg.evaluations == 0 {
		fmt.Fprintln(os.Stderr, "no runs executed")
		return 2
	}
	return exit
}

// inconclusiveReasons keeps the first few reasons (truncated) for the evidence.
func inconclusiveReasons(in []string) []string {
	out := []string{}
	for i, r := range in {
		if i == 5 {
			break
		}
		out = append(out, firstN(r, 300))
	}
	return out
}

func firstN(s string, n int) string {
	if len(s) > n {
		return s[:n] + "…"
	}
	return s
}

func (a *aggregate) add(r *Result) {
	if r.Invalid != "" {
		a.invalid++
		return
	}
	a.evaluations++
	if r.Inconclusive != "" {
		a.inconclusive = append(a.inconclusive, fmt.Sprintf("[job seed=%d index=%d] %s", r.Seed, r.Index, r.Inconclusive))
		return
	}
	a.sessions += r.Sessions
	if r.Key != "" {
		a.keys[r.Key] = true
		if r.NonTrivial {
			a.nontrivial[r.Key] = true
		}
	}
	a.steps += int64(r.Steps)
	a.bytes += r.Bytes
	a.simMs += r.SimTimeMs
	for k, v := range r.Faults {
		a.faults[k] += v
	}
	for k, v := range r.Probes {
		a.probes[k] += v
	}
	for _, s := range r.Shapes {
		a.shapes[s] = true
	}
	if r.Exhaustive {
		a.exhaustive = true
	}
	if len(r.Sample) > 0 && string(r.Sample) != "null" && len(a.samples) < 5 && r.NonTrivial {
		a.samples = append(a.samples, r.Sample)
	}
}

func writeEvidence(prop, tier string, seed uint64, meta PropMeta, a *aggregate, wall, runWall float64, nviol int) {
	if len(a.samples) == 0 {
		a.samples = append(a.samples, json.RawMessage(`"no non-trivial run in this batch"`))
	}
	perHour := 0.0
	if runWall > 0 {
		perHour = float64(a.evaluations) / runWall * 3600
	}
	cov := map[string]any{
		"evaluations":            a.evaluations,
		"distinct_nontrivial":    len(a.nontrivial),
		"distinct_scenarios":     len(a.keys),
		"rule":                   meta.Rule,
		"samples":                a.samples,
		"simulated_sessions":     a.sessions,
		"runs_per_hour":          int64(perHour),
		"seeds_per_hour":         int64(perHour),
		"scheduler_steps":        a.steps,
		"bytes_moved":            a.bytes,
		"simulated_seconds":      float64(a.simMs) / 1000,
		"faults_fired":           a.faults,
		"probes":                 a.probes,
		"distinct_interleavings": len(a.shapes),
		"interleaving_measure":   "distinct hashes of the per-session sequence of (action kind, pipe, log4 length class)",
		"components_real":        meta.Real,
		"components_stub":        meta.Stub,
		"inconclusive_runs":      len(a.inconclusive),
		"inconclusive_reasons":   inconclusiveReasons(a.inconclusive),
		"invalid_scenarios":      a.invalid,
		"known_findings_hit":     a.known,
		"technique":              meta.Technique,
	}
	if meta.EnumTotal > 0 {
		cov["enumerated_subspace"] = map[string]any{"cases_total": meta.EnumTotal, "cases_run": a.probes["enum_cases"], "complete": a.probes["enum_cases"] >= meta.EnumTotal}
	}
	ev := map[string]any{
		"property_id": prop,
		"tier":        tier,
		"seed":        int64(seed & 0x7fffffffffffffff),
		"level":       meta.Level,
		"coverage":    cov,
		"assumptions": meta.Assumptions,
		"wall_s":      wall,
		"violations":  nviol,
	}
	b, _ := json.MarshalIndent(ev, "", " ")
	dir := filepath.Join(verifRoot, "evidence")
	if alt := os.Getenv("VERIF_REPO"); alt != "" && alt != "/repo" {
		// a run against another checkout (a seeded change in a scratch worktree)
		// says nothing about /repo: its evidence goes elsewhere
		dir = filepath.Join(verifRoot, ".build", "evidence-alt")
	}
	os.MkdirAll(dir, 0755)
	os.WriteFile(filepath.Join(dir, prop+".json"), append(b, '\n'), 0644)
}

// ---- replay files and minimisation --------------------------------------------------

type Replay struct {
	Property string          `json:"property"`
	Tier     string          `json:"tier"`
	Seed     uint64          `json:"seed"`
	Index    int             `json:"index"`
	Scenario json.RawMessage `json:"scenario,omitempty"`
	Expect   Violation       `json:"expect"`
	Note     string          `json:"note,omitempty"`
}

func sameClass(a *Violation, kind, sig string) bool {
	return a != nil && a.Kind == kind && a.Signature == sig
}

func minimiseAndWrite(prop, tier, bin string, meta PropMeta, scratch string, r *Result, n int) string {
	os.MkdirAll(filepath.Join(verifRoot, "replays"), 0755)
	path := filepath.Join(verifRoot, "replays", fmt.Sprintf("%s-%s-%d.json", prop, sanitize(r.Violation.Kind), n))
	rp := Replay{Property: prop, Tier: tier, Seed: r.Seed, Index: r.Index, Scenario: r.Scenario, Expect: *r.Violation}
	w := &worker{id: 99, bin: bin, env: meta.Env, scratch: filepath.Join(scratch, "min")}
	os.MkdirAll(w.scratch, 0755)
	defer w.stop()
	if len(rp.Scenario) == 0 {
		// crashed worker: regenerate the scenario from the seed
		res, _ := w.run(&Job{Prop: prop, Seed: r.Seed, Tier: tier, Index: r.Index, DumpOnly: true}, 60*time.Second)
		if res != nil && len(res.Scenario) > 0 {
			rp.Scenario = res.Scenario
		}
	}
	if len(rp.Scenario) > 0 && !meta.NoMinimise {
		best, tries := minimise(w, prop, tier, rp.Scenario, r.Violation.Kind, r.Violation.Signature, meta.Quick.JobTimeout)
		rp.Scenario = best
		rp.Note = fmt.Sprintf("minimised with %d candidate runs", tries)
	}
	b, _ := json.MarshalIndent(rp, "", " ")
	os.WriteFile(path, append(b, '\n'), 0644)
	return path
}

func sanitize(s string) string {
	return regexp.MustCompile(`[^a-zA-Z0-9_-]+`).ReplaceAllString(s, "_")
}

// minimise shrinks the scenario JSON generically: drop array elements, zero or
// halve numbers, drop optional object members, while the violation class stays
// the same. Budget-capped.
func minimise(w *worker, prop, tier string, scenario json.RawMessage, kind, sig string, jobTimeout time.Duration) (json.RawMessage, int) {
	var cur any
	dec := json.NewDecoder(bytes.NewReader(scenario))
	dec.UseNumber()
	if err := dec.Decode(&cur); err != nil {
		return scenario, 0
	}
	tries := 0
	deadline := time.Now().Add(40 * time.Second)
	test := func(v any) bool {
		if tries >= 200 || time.Now().After(deadline) {
			return false
		}
		tries++
		b, _ := json.Marshal(v)
		res, _ := w.run(&Job{Prop: prop, Tier: tier, Scenario: b, WantTape: false}, jobTimeout)
		return res != nil && sameClass(res.Violation, kind, sig)
	}
	// confirm reproduction first
	if !test(cur) {
		return scenario, tries
	}
	for pass := 0; pass < 4; pass++ {
		progress := false
		cur, progress = shrinkValue(cur, func(c any) bool { return test(c) }, cur, nil)
		if !progress || tries >= 300 || time.Now().After(deadline) {
			break
		}
	}
	b, _ := json.Marshal(cur)
	return b, tries
}

// shrinkValue tries local simplifications of node (reached from root via path
// setter) and returns the possibly replaced root.
func shrinkValue(root any, test func(any) bool, node any, set func(any)) (any, bool) {
	progress := false
	replace := func(nv any) bool {
		if set == nil {
			if test(nv) {
				root = nv
				return true
			}
			return false
		}
		old := node
		set(nv)
		if test(root) {
			node = nv
			return true
		}
		set(old)
		return false
	}
	switch v := node.(type) {
	case []any:
		// schedule tapes: try all-zero / truncated first
		if len(v) > 16 && isNumArray(v) {
			if replace([]any{}) {
				return root, true
			}
			half := append([]any(nil), v[:len(v)/2]...)
			if replace(half) {
				v = half
				progress = true
			}
			return root, progress
		}
		// drop chunks of elements, then single elements
		for size := len(v) / 2; size >= 1; size /= 2 {
			for i := 0; i+size <= len(v); {
				nv := append(append([]any(nil), v[:i]...), v[i+size:]...)
				if replace(nv) {
					v = nv
					progress = true
				} else {
					i += size
				}
			}
		}
		for i := range v {
			idx := i
			cur := v
			r, p := shrinkValue(root, test, cur[idx], func(nv any) { cur[idx] = nv })
			root = r
			progress = progress || p
		}
	case map[string]any:
		keys := make([]string, 0, len(v))
		for k := range v {
			keys = append(keys, k)
		}
		sort.Strings(keys)
		for _, k := range keys {
			key := k
			// optional members: try removing
			switch key {
			case "alt", "faults", "edits", "tape", "delays", "module_fs", "via_serve", "mtime_ns", "dest_sub", "seed", "fs", "empty":
				old, had := v[key]
				if had {
					delete(v, key)
					if test(root) {
						progress = true
						continue
					}
					v[key] = old
				}
			}
			r, p := shrinkValue(root, test, v[key], func(nv any) { v[key] = nv })
			root = r
			progress = progress || p
		}
	case json.Number:
		if i, err := v.Int64(); err == nil && i != 0 {
			for _, cand := range []int64{0, i / 2, i - 1} {
				if cand == i || (cand < 0 && i > 0) {
					continue
				}
				if replace(json.Number(strconv.FormatInt(cand, 10))) {
					progress = true
					break
				}
			}
		}
	}
	return root, progress
}

func isNumArray(v []any) bool {
	for i := 0; i < len(v) && i < 4; i++ {
		if _, ok := v[i].(json.Number); !ok {
			return false
		}
	}
	return true
}

func cmdReplay(path string) int {
	b, err := os.ReadFile(path)
	if err != nil {
		fmt.Fprintln(os.Stderr, err)
		return 2
	}
	var rp Replay
	if err := json.Unmarshal(b, &rp); err != nil {
		fmt.Fprintln(os.Stderr, err)
		return 2
	}
	meta, ok := Meta[rp.Property]
	if !ok {
		fmt.Fprintln(os.Stderr, "unknown property", rp.Property)
		return 2
	}
	bin, err := buildWorker(&meta, false)
	if err != nil {
		fmt.Fprintln(os.Stderr, err)
		return 2
	}
	scratch := scratchBase()
	defer cleanupScratch(scratch)
	w := &worker{bin: bin, env: meta.Env, scratch: scratch}
	defer w.stop()
	job := &Job{Prop: rp.Property, Seed: rp.Seed, Tier: rp.Tier, Index: rp.Index, Scenario: rp.Scenario}
	res, _ := w.run(job, 10*time.Minute)
	if res.Violation != nil {
		same := sameClass(res.Violation, rp.Expect.Kind, rp.Expect.Signature)
		fmt.Printf("VIOLATION property=%s replay=%s\n  reproduced_same_class=%v kind=%s signature=%q\n  %s\n", rp.Property, path, same,
			res.Violation.Kind, res.Violation.Signature, strings.ReplaceAll(firstN(res.Violation.Detail, 3000), "\n", "\n  "))
		return 1
	}
	if res.Inconclusive != "" {
		fmt.Println("inconclusive:", res.Inconclusive)
		return 2
	}
	if res.Invalid != "" {
		fmt.Println("invalid scenario:", res.Invalid)
		return 2
	}
	fmt.Printf("no violation on replay (expected kind=%s signature=%q)\n", rp.Expect.Kind, rp.Expect.Signature)
	return 0
}

func cmdDump(args []string) int {
	prop := args[0]
	meta := Meta[prop]
	seed, _ := strconv.ParseUint(args[1], 10, 64)
	idx := 0
	if len(args) > 2 {
		idx, _ = strconv.Atoi(args[2])
	}
	bin, err := buildWorker(&meta, false)
	if err != nil {
		fmt.Fprintln(os.Stderr, err)
		return 2
	}
	scratch := scratchBase()
	defer cleanupScratch(scratch)
	w := &worker{bin: bin, env: meta.Env, scratch: scratch}
	defer w.stop()
	tier := os.Getenv("VERIF_TIER")
	if tier == "" {
		tier = "quick"
	}
	res, _ := w.run(&Job{Prop: prop, Seed: seed, Tier: tier, Index: idx, DumpOnly: true}, time.Minute)
	fmt.Println(string(res.Scenario))
	return 0
}

// cmdDeterminism runs the same seeds in several fresh processes at different
// GOMAXPROCS and requires identical event-log hashes.
func cmdDeterminism(prop string, args []string) int {
	o := parseOpts(args)
	if o.seeds == 0 {
		o.seeds = 40
	}
	meta, ok := Meta[prop]
	if !ok {
		return 2
	}
	bin, err := buildWorker(&meta, false)
	if err != nil {
		fmt.Fprintln(os.Stderr, err)
		return 2
	}
	scratch := scratchBase()
	defer cleanupScratch(scratch)
	seed := baseSeed()
	procs := []int{1, 4, 16, 2, 16, 1}
	type out struct {
		hashes [][]uint64
	}
	results := make([][]string, len(procs))
	// coarse: the same, with byte counts reduced to log4 length classes (error
	// messages that quote renameio's random temporary names differ by a few
	// bytes between runs; nothing else may)
	coarse := make([][]string, len(procs))
	var wg sync.WaitGroup
	for pi, gp := range procs {
		wg.Add(1)
		go func(pi, gp int) {
			defer wg.Done()
			w := &worker{id: pi, bin: bin, env: append([]string{fmt.Sprintf("GOMAXPROCS=%d", gp)}, meta.Env...), scratch: filepath.Join(scratch, fmt.Sprintf("p%d", pi))}
			os.MkdirAll(w.scratch, 0755)
			defer w.stop()
			for i := 0; i < o.seeds; i++ {
				res, _ := w.run(&Job{Prop: prop, Seed: splitmix(seed*1_000_003 + uint64(i)), Tier: o.tier, Index: i}, meta.Quick.JobTimeout)
				v := ""
				if res.Violation != nil {
					v = res.Violation.Kind + "/" + res.Violation.Signature
				}
				results[pi] = append(results[pi], fmt.Sprintf("%v|%d|%s|%s", res.Hashes, res.Steps, v, firstN(res.Inconclusive, 40)))
				if len(res.Hashes) == 0 {
					// no scheduled session in this run (free-running or SSH
					// sessions: real goroutine interleaving, crypto/rand): only
					// the verdict is comparable
					results[pi][len(results[pi])-1] = "unscheduled|" + v
					coarse[pi] = append(coarse[pi], "unscheduled|"+v)
					continue
				}
				coarse[pi] = append(coarse[pi], fmt.Sprintf("%v|%d|%s|%s", res.Shapes, res.Steps, v, firstN(res.Inconclusive, 40)))
			}
		}(pi, gp)
	}
	wg.Wait()
	bad := 0
	for i := 0; i < o.seeds; i++ {
		for pi := 1; pi < len(procs); pi++ {
			if results[pi][i] != results[0][i] {
				bad++
				fmt.Printf("NONDETERMINISM property=%s run=%d: GOMAXPROCS=%d gave %s, GOMAXPROCS=%d gave %s\n", prop, i, procs[0], firstN(results[0][i], 200), procs[pi], firstN(results[pi][i], 200))
				break
			}
		}
	}
	badCoarse := 0
	for i := 0; i < o.seeds; i++ {
		for pi := 1; pi < len(procs); pi++ {
			if coarse[pi][i] != coarse[0][i] {
				badCoarse++
				break
			}
		}
	}
	fmt.Printf("determinism property=%s seeds=%d processes=%d divergent=%d divergent_beyond_length_class=%d\n", prop, o.seeds, len(procs), bad, badCoarse)
	if badCoarse > 0 {
		return 1
	}
	return 0
}
