package main

import "time"

type TierCfg struct {
	Runs       int
	Budget     time.Duration
	JobTimeout time.Duration
}

// PropMeta is the per-property configuration of the driver and the static
// part of the evidence (rule text, assumptions, components).
type PropMeta struct {
	Level            string
	Technique        string
	Rule             string
	Assumptions      []string
	Real, Stub       []string
	Quick            TierCfg
	Thorough         TierCfg
	ExtraTags        string
	Env              []string
	RaceFraction     float64 // fraction of workers running the -race build
	NonRootFraction  float64 // fraction of workers that drop to uid 65534
	NoMinimise       bool
	MaxJobsPerWorker int // restart the worker process after this many jobs (0 = never)
	EnumTotal        int // size of the sub-space the thorough tier enumerates completely (probe enum_cases)
}

var realCommon = []string{"rsyncclient", "rsyncd", "rsynccmd", "internal/maincmd", "internal/sender", "internal/receiver", "internal/rsyncwire", "internal/rsyncopts", "internal/rsyncchecksum", "internal/rsynccommon", "renameio", "os.Root", "kernel tmpfs under /dev/shm"}
var stubCommon = []string{"connection (simulated byte-stream transport, every Read/Write scheduled)", "listener and peer addresses", "clock (testing/synctest fake time)", "scheduler (seeded choice tape decides which parked operation proceeds)"}

func q(runs int, budget time.Duration) TierCfg {
	return TierCfg{Runs: runs, Budget: budget, JobTimeout: 300 * time.Second}
}

var Meta = map[string]PropMeta{
	"C01": {
		Level:       "exploration",
		Technique:   "deterministic simulation: real client and real daemon in one process over a seeded scheduled transport; seeded search over tree x prior destination x options x arrangement x transport personality; reference-model oracle on the final tree",
		Rule:        "one evaluation = one generated scenario (source tree, prior destination state, option subset, source arguments, arrangement A1 pull-daemon/A2 push-daemon/A3 library pull+push/A4 CLI local copy, transport capacities/chunking/bias), run under 1-2 schedules; oracle: both ends return nil, every model-selected regular file equals the source bytes if the update rule says transfer, else is unchanged. One scheduled run in five starts from a killed state: an identical earlier sync is stopped at a drawn scheduler step (all goroutines of both ends parked), the destination is copied as a kill of both processes would leave it (temporary files, half-made directories) and that copy is the prior state of the judged sync (probes kill_states*). Non-trivial = at least one selected file was transferred over an existing, non-empty, different destination file (delta basis in play); distinct = distinct scenario JSON Names sometimes contain the names the harness gives to modules and roots (mod, old-mod, src, dst).",
		Assumptions: []string{"reference model of selection/update rule (verif/sim/model) is correct", "A4 (CLI local copy) uses io.Pipe inside the code under test: its interleaving is chosen by the Go runtime, only hang detection is exact there", "file sizes up to 3 MiB quick / 12 MiB thorough"},
		Real:        realCommon, Stub: stubCommon,
		Quick:    q(3000, 40*time.Second),
		Thorough: q(1000000, 20*time.Minute),
	},
	"C19": {
		Level:       "exploration",
		Technique:   "deterministic simulation: real daemon accept loop (Server.Serve) on a simulated listener whose connections carry chosen peer addresses; reference daemon client asks for the module; independent first-match model written with net/netip as oracle; thorough tier enumerates the whole rule-pool product",
		Rule:        "rule lists of length 0..3 from a pool of 34 rules (allow/deny x all, /0, /8, /24, /32, /128, IPv4-mapped prefixes, nested and disjoint networks, and malformed rules: missing space, unknown action (with 'all', and with a valid network so that only a non-matching address exposes a skipped check), bare address, bad prefix length, double space, trailing space, upper case, bad octet, empty) x addresses from a pool of 26 (IPv4, IPv6, IPv4-mapped IPv6 on and around every prefix boundary). Oracle: '@RSYNCD: OK' and a complete session iff the first rule containing the address says allow or no rule matches; otherwise (also when evaluation reaches a malformed rule) an @ERROR line followed by EOF with no further byte. quick samples lists and 6 addresses per list; thorough enumerates all 1+34+34^2+34^3 = 40495 lists x all 26 addresses. Non-trivial = non-empty rule list Some clients ignore the @ERROR line and carry on with the protocol; they must still receive nothing.",
		Assumptions: []string{"input/configuration-quantified (pure decision function); the simulated network supplies arbitrary peer addresses, which real sockets cannot", "independent model semantics for IPv4-mapped addresses: an IPv4 prefix contains the corresponding mapped IPv6 address and vice versa (what net.IPNet.Contains does)"},
		Real:        realCommon, Stub: append([]string{"client: reference daemon client"}, stubCommon...),
		Quick:     q(6000, 35*time.Second),
		Thorough:  TierCfg{Runs: 41000, Budget: 50 * time.Minute, JobTimeout: 180 * time.Second},
		EnumTotal: 40495,
	},
	"C20": {
		Level:       "exploration",
		Technique:   "deterministic simulation as execution vehicle: the real daemon entry point (maincmd.Main through rsynccmd, listener hook under build tag verif) serves its SSH listeners on a simulated network inside the worker; golang.org/x/crypto/ssh clients connect with generated keys and send exec/shell/subsystem/pty/env requests and channel opens; canary ring and channel output as oracles",
		Rule:        "auth mode: authorized_ssh listener with an authorized_keys file in one of 4 layouts (plain, comments and blank lines, options prefix and comment suffix, empty) listing a random subset of 2-5 generated keys of types ed25519/ecdsa-256/384/521/rsa-2048; every key connects: handshake must succeed iff the key is listed, and an admitted client gets the module listing through 'rsync --server --daemon .'. anon mode: anon_ssh listener with a writable module; 5 (thorough 12) sessions: the daemon invocation (3 spellings), shell/subsystem/pty-req, foreign channel types, and exec command lines from a 34-entry grammar (command-mode server on outside paths with and without --sender/--delete, client-mode local and remote transfers, -e/--rsh with a canary script, RSYNC_RSH via env, daemon flags, --version/--help, other programs, empty line). Oracle: every non-daemon command line ends with a non-zero exit status or a refused request/channel; no canary content on the channel; nothing created, changed, deleted or executed outside the module; no outside content copied into the module; the daemon invocation serves the listing. Non-trivial = every run Command lines without a program name; behind every accepted --server command the check plays the matching client for real; unlisted keys wrapped in certificates naming a listed key as issuer (forged, and really signed by the listed key). Command lines with --daemon after the paths or as the value of another option are judged by exposure, with the matching client played for real.",
		Assumptions: []string{"input/configuration-quantified; SSH key exchange uses crypto/rand, so event logs (not verdicts) differ between runs", "built with the repository's nonamespacing tag and GOKRAZY_RSYNC_PRIVDROP=1 so that the daemon does not re-execute itself in a mount namespace; landlock relaxed through restrict.ExtraHook", "only the anonymous listener is held to 'daemon protocol only' (command mode is the documented use of the authorised one)"},
		Real:        append([]string{"internal/anonssh", "internal/maincmd daemon branch", "internal/rsyncdconfig", "golang.org/x/crypto/ssh (server and client)"}, realCommon...), Stub: append([]string{"non-parking simulated connections (x/crypto/ssh holds a mutex across Write)"}, stubCommon...),
		Quick:            q(300, 60*time.Second),
		Thorough:         q(1000000, 25*time.Minute),
		ExtraTags:        "nonamespacing",
		Env:              []string{"GOKRAZY_RSYNC_PRIVDROP=1"},
		MaxJobsPerWorker: 10,
	},
	"C02": {
		Level:       "exploration",
		Technique:   "deterministic simulation: reference protocol-27 receiver (independent implementation, cross-checked against tridge rsync 3.2.7) drives the real sender with block-checksum sets of its own choosing over bases of its own choosing; reference sender drives the real receiver with scripted token streams; scheduled transport and short-reading simulated sender disk; bounded enumeration of the small-alphabet sub-space in the thorough tier",
		Rule:        "sender mode: 1-6 files per session, each a (target, basis, block length, strong length) case: small alphabets {a,b}/{a,b,c} with lengths 0..12 and block lengths 1..8, or large files up to 3 MiB with block lengths 700..131072 (incl. multiples of 8 and tiny legal ones), bases = edited variants incl. weak-checksum-colliding blocks (+1,-2,+1 byte patch keeps the rolling sum), duplicated blocks, remainder block recurring mid-file; real daemon serves from a directory or from a short-reading fs.FS. Oracle: tokens applied to the basis == source bytes, trailer == MD4(seed||source), head echoed; with a truncated strong sum a mismatch is accepted only if weak and truncated strong sums of the referenced block and the target window are equal. receiver mode: real pulling client, destination holds bases, reference sender answers with random scripts (literal runs 1 B..256 KiB+1, block references in any order, repeated, remainder block mid-file); oracle: file written == bytes denoted. thorough additionally enumerates ALL targets x bases over {a,b} of length 1..6 x block lengths 1..4 (63504 cases). Non-trivial = a reply with both block references and literals (sender) / scripts with block references (receiver) Block lengths include values above the 128 KiB limit of later protocols (up to 2^29) and strong-checksum lengths 1..16. Receiver mode: at fixed positions of the run sequence the basis is a sparse file of 2 GiB and more and the block references go to offsets at and beyond the 2 GiB mark.",
		Assumptions: []string{"refproto is the trusted base (go test ./refproto validates it against /usr/bin/rsync --protocol=27 when present)", "file sizes <= 3 MiB"},
		Real:        realCommon, Stub: append([]string{"peer: reference protocol-27 receiver/sender (verif/sim/refproto)", "sender disk for fs.FS modules: simfs with seeded short reads"}, stubCommon...),
		Quick:     q(4000, 40*time.Second),
		Thorough:  q(1000000, 20*time.Minute),
		EnumTotal: 63504,
	},
	"C03": {
		Level:       "fault_enumeration",
		Technique:   "deterministic simulation with fault injection: single-bit flips in flight addressed protocol-relative (token word / literal byte / trailer byte of a given file, located by decoding the fault-free run's wire history), an external writer mutating the basis between signature generation and reconstruction (at a scheduler step), and a reference sender that describes other bytes than its (true) trailer claims",
		Rule:        "wire mode: 1-3 files of the shapes whole-file / mixed delta / pure delta, real sender and real receiver in pull and push (A1, A2, A3 both ways); a fault-free run is decoded to enumerate all token-word, literal and trailer byte positions; then 10 (thorough: 30) single faults per scenario: bit flip at a drawn position of a drawn class (token words: bits 0-10,12,16,20,31), or basis mutation at a drawn step. Oracle after each faulted run: every listed file holds its previous content (or the externally written one) or exactly the sender's content; a session reporting success has updated every file the rule requires. script mode (every 5th run): reference sender answers with the honest token stream perturbed (other valid block index, literal runs swapped/duplicated, token dropped, truncated) but the TRUE whole-file checksum: destination must stay unchanged and the client must fail. Non-trivial = at least one fault run on a session with data replies / a perturbation denoting different bytes Script mode also covers files whose destination is absent (all-zero checksum header echoed by the sender) and single flipped literal bits.",
		Assumptions: []string{"flips of token-word bits that declare hundreds of megabytes are not generated (resource exhaustion is outside the guarantee)", "index-word and sum-head flips are outside the property's quantifier (token words, literal bytes, trailer)", "wire bytes are identical between the fault-free and the faulted run of one process (same checksum seed inside the bubble)"},
		Real:        realCommon, Stub: append([]string{"script mode: sending peer is the reference sender"}, stubCommon...),
		Quick:    q(300, 50*time.Second),
		Thorough: TierCfg{Runs: 5000, Budget: 25 * time.Minute, JobTimeout: 15 * time.Minute},
	},
	"C04": {
		Level:       "fault_enumeration",
		Technique:   "deterministic simulation with fault injection: step invariant (old-or-new at every quiescent point = crash point at wire-token granularity), freeze (crash) and connection-cut faults at byte offsets of either direction, leftover-temp check after error returns",
		Rule:        "one evaluation = one multi-file scenario (new files, replaced files, replaced symlinks, other types in the way; receiver = real client in A1/A3p, real daemon in A2/A3s) run fault-free with the atomicity invariant evaluated at every scheduler step, then re-run once per fault (cut of either direction / freeze of the receiving party at a byte offset drawn per-mille of the direction's volume; 6 faults per scenario quick, 30 thorough). Invariant: every listed path is its complete old content, its complete new content, or absent (absent only if it was absent or the type changes). After a cut: both ends return, connection closed, no non-listed entry may remain. In addition the kernel's inotify history of the destination is recorded for every run: a listed path that is replaced by an entry of the same type must never show a DELETE/MOVED_FROM event (this covers the instants between two system calls that the scheduler cannot stop at). Non-trivial = at least one regular file replaced over different content and > 20 steps A third of the runs use --delete (the delete pass must not touch listed paths); listed paths below a symlink that is still in the way of a directory are not judged at that instant.",
		Assumptions: []string{"crash points are quiescent points (receiver parked in Read at byte N); crashes between two syscalls of one goroutine are not sampled", "power-loss durability (un-fsynced data) is not simulated: no storage seam", "freeze + snapshot stands in for SIGKILL of a subprocess (directory contents are what survives a kill)"},
		Real:        realCommon, Stub: stubCommon,
		Quick:    q(600, 60*time.Second),
		Thorough: TierCfg{Runs: 6000, Budget: 25 * time.Minute, JobTimeout: 15 * time.Minute},
	},
	"C05": {
		Level:       "exploration",
		Technique:   "deterministic simulation with a hostile reference sender: the real receiving client (pull from a hostile daemon) and the real writable daemon module (upload from a hostile client, incl. sub-directory arguments) are fed file lists built from an escape-vector grammar; a ring of canary objects around the destination is compared before/during/after; block checksums requested by the real generator are matched against the canaries' signatures to detect reads",
		Rule:        "2-9 hostile entries per list drawn from 34 name vectors (.. components, absolute names, names through pre-existing symlinks pointing out of the root, names through symlinks sent earlier in the same list (evil -> ../sibling_dir, evil2 -> absolute dir, evil_up -> ..), a/../.. forms, name-prefix siblings) x entry types regular file (basis open, temp file, rename), directory (mkdir, chmod, chtimes), symlink, fifo, socket, char device (mknod), with a random subset of -l -p -t -o -g -D --delete -I -c so that chmod/chtimes/chown/delete are attempted; module side also draws the upload sub-directory from {'', sub/, link_out/, link_up/, ../, ../sibling_dir/, link_abs/, a/../../}. Oracle: every object outside the root (sibling file, sibling directory, name-prefix sibling, absolute-path canary, /etc probe) has identical existence, content, mode, mtime, owner at every 16th scheduler step and at the end; no request carries the block signature of a canary. Any error or skip is acceptable. Non-trivial = every run Hostile names may end in a slash; the same name may occur several times with different types; the hostile sender may withhold the data of one entry.",
		Assumptions: []string{"runs as root, so ownership and device creation are really attempted", "a crash of the receiver is recorded as a probe here and judged by C08"},
		Real:        realCommon, Stub: append([]string{"hostile peer: reference sender"}, stubCommon...),
		Quick:     q(6000, 35*time.Second),
		Thorough:  q(1000000, 20*time.Minute),
		EnumTotal: 2448, // 34 vectors x 6 types x 6 option sets x 2 sides, enumerated first by the thorough tier
	},
	"C06": {
		ExtraTags:        "nonamespacing",
		MaxJobsPerWorker: 200,
		Level:            "exploration",
		Technique:        "deterministic simulation with a hostile reference receiver: the real daemon (directory- and fs.FS-backed modules, several modules whose names are prefixes of each other) receives request paths from a traversal grammar; the raw server byte stream is scanned for canary secrets and the decoded file list is checked against the module's real contents",
		Rule:             "module line from {mod, modx, mo, modfs} and one of 45 path forms (module/.., module/../x, module//../, absolute paths, paths through inside symlinks that point to an outside directory/file/absolute directory/.., empty and '.' components, other-module prefixes, NUL and blank components) with a random subset of -r -l -c -t -p -D -o -g; the reference receiver requests every listed regular file. Oracle: the server's raw bytes never contain the content (first 40/last 64 bytes), the MD4 or the name of an object outside the module (names may occur only as link targets of inside symlinks), nor another module's content; every decoded list entry names an existing object inside the module reached without a symlink or '..'. Non-trivial = every run The hostile receiver also requests the 'content' of one non-regular entry (symlink, directory, device) per session; the module contains an absolute symlink that only looks internal. One run in forty reaches the daemon through its anonymous SSH listener with sender command lines on outside paths (C20's machinery).",
		Assumptions:      []string{"canary contents are 2 KB random strings so accidental occurrence is impossible", "link target strings of symlinks inside the module are module data and may name outside paths"},
		Real:             realCommon, Stub: append([]string{"hostile peer: reference receiver"}, stubCommon...),
		Quick:    q(8000, 35*time.Second),
		Thorough: q(1000000, 20*time.Minute),
	},
	"C07": {
		Level:       "exploration",
		Technique:   "deterministic simulation: real daemon with modules of mixed writability behind Serve(simulated listener) or HandleDaemonConn, attacked by the real pushing client and by a reference protocol-27 sender with hand-written argument lines; module snapshot as step invariant and final oracle",
		Rule:        "daemon with modules rw (writable), ro (directory, read-only), rofs (fs.FS-backed) and r (writable, name is a prefix of the read-only ones); upload target ro|rofs plus sub-path from {'', '/', '/sub', '/sub/', '/a/b/c/', '/../rw/', '/.', existing entry}; flags: random subset of -t -p -l -D -o -g -c -I -n --delete -a (real client) or raw argument lines without --sender in several spellings (hostile client sending a list and data). Oracle: snapshot of both read-only module trees (content, mode, mtime ns, owner, link target) identical at every 4th scheduler step and at the end; the client ends with an error (@ERROR line, error frame or failed session). Non-trivial = every run (a refusal was observed) A sixth of the runs are download/listing requests (also for paths that do not exist) under the same unchanged-module invariant; one server in twelve is created without DontRestrict() with landlock made a no-op. One run in eight is the second step of a two-step attack (the writable module contains a symlink to the read-only module's directory, the upload goes to rw/door/...); download requests may carry --remove-source-files.",
		Assumptions: []string{"refproto sender is the hostile peer"},
		Real:        realCommon, Stub: append([]string{"hostile peer: reference sender"}, stubCommon...),
		Quick:    q(5000, 35*time.Second),
		Thorough: q(1000000, 15*time.Minute),
	},
	"C08": {
		Level:       "fault_enumeration",
		Technique:   "deterministic simulation with a byzantine reference peer: structure-aware single-field mutation of otherwise valid sessions (every named protocol field x value class), argument lines from the option parser's vocabulary, connection cuts at byte offsets and random noise, against the real daemon behind its real accept loop (no recover: a panic or os.Exit kills the worker process, which the driver observes) and against the real client; each hostile session is followed by a canonical valid session on the same daemon",
		Rule:        "daemon target: one Server.Serve(simulated listener) with modules ro/rw/fsm per run, 6 (thorough 14) hostile sessions, each followed by a canonical pull whose data must be correct. Session kinds: pull-mut / push-mut (one field occurrence of greeting, module line, argument line, filter list, file index, checksum-header fields, sums, file-list flags/lengths/names/ids/links, id lists, tokens, literals, trailers, phase markers and (client target) multiplex frame headers mutated by class neg, -1, 0, +1, -1, 2^20-1, truncation after the field, noise, int32 max/min; count-like fields never above 2^20 unless negative), args (57 argument-line vectors incl. --version, --help, --info=help, --debug=help, --daemon -h, -hh, unknown and unimplemented options, wildcard filters, 70 KB option strings, odd module lines), cut-pull / cut-push (connection lost after N client bytes), noise (random bytes at 5 handshake stages). client target (every third run): real pulling/pushing client against a hostile server with mutated version/seed/list/reply/stat fields or noise, or a valid stream packed into multiplex frames of 32 KiB .. 16 MiB-1 (larger than the client's documented limit: must be refused with an error, not a crash). Oracle: worker process alive (no panic, os.Exit, fatal error), no handler or client left blocked after the hostile peer closed, canonical request served with correct bytes, client returns instead of panicking. Non-trivial = at least one canonical session verified / every client run The hostile receiver signs nine basis layouts (exact multiples of the block length, single blocks, short strong sums); a quarter of the hostile peers linger, stalled, instead of closing, while the canonical request is served. Index mutations include 'exactly one past the list'; the hostile client sends filter lists with wildcard and malformed rules.",
		Assumptions: []string{"stalled peers and declared multi-gigabyte sizes are outside the guarantee (never generated)", "a crash is identified by panic message and top /repo frame, which is also the known-finding key"},
		Real:        realCommon, Stub: append([]string{"hostile peer: reference peer with single-field mutation"}, stubCommon...),
		Quick:    q(1500, 60*time.Second),
		Thorough: q(1000000, 25*time.Minute),
	},
	"C09": {
		Level:       "exploration",
		Technique:   "deterministic simulation: real client and daemon over the scheduled transport in pull, push and local arrangements; seeded generation of source/destination tree pairs with extraneous entries in every sort position; reference-model oracle on the final entry set; sender-disk fault (directory listing error) raises the I/O-error flag",
		Rule:        "recursive sync of a directory's contents with --delete (control: without), destination holds 0..6 extraneous files/directories/symlinks/fifos per run at names sorting before, between and after the listed ones, nested, optionally an --exclude rule naming a destination entry. Oracle: listed entries never removed; without --delete or with the sender's I/O-error flag raised (simulated ReadDir failure) nothing removed; with --delete every extraneous entry not protected by an exclude rule is gone and every protected one is kept. Non-trivial = --delete with >= 2 extraneous entries One scheduled run in six starts from a killed state (destination copied at a drawn scheduler step of an earlier non-dry sync with the same arguments: temporary files and half-made directories are part of the prior state; probes kill_states*). Half of the runs without --delete put a non-empty directory in the way of a source file: the transfer may fail, but no destination path may disappear. Exclude rules may contain a slash (unique tails only); extraneous names may be prefixes or extensions of listed names.",
		Assumptions: []string{"model of exclude-rule protection: an entry is protected iff it or a parent matches an exclude rule (rsync semantics without --delete-excluded)"},
		Real:        realCommon, Stub: append([]string{"sender disk (I/O error runs): simfs"}, stubCommon...),
		Quick:    q(6000, 35*time.Second),
		Thorough: q(1000000, 15*time.Minute),
	},
	"C10": {
		Level:       "exploration",
		Technique:   "deterministic simulation: real client and daemon in all arrangements with -n; snapshot invariant on the destination evaluated at scheduler steps and at the end; wire-history monitor decodes the sender's stream and requires it to consist of file list, index echoes and phase markers only",
		Rule:        "source/destination pairs containing regular files, directories, symlinks, fifos, sockets and devices in every update situation (missing, different, same, wrong type), random option subsets plus -n/--dry-run (a third with --delete and extraneous entries), arrangements A1-A4. Oracle: full snapshot (names, types, content hash, mode, mtime ns, link target, rdev, owner) identical before/after and at every 8th scheduler step; session succeeds; sender stream carries no sum head, token or literal. Non-trivial = at least one file index was requested (echoed) One scheduled run in six starts from a killed state (destination copied at a drawn scheduler step of an earlier non-dry sync with the same arguments: temporary files and half-made directories are part of the prior state; probes kill_states*).",
		Assumptions: []string{"A4: no wire tap (io.Pipe inside the code under test), snapshot oracle only"},
		Real:        realCommon, Stub: stubCommon,
		Quick:    q(6000, 35*time.Second),
		Thorough: q(1000000, 15*time.Minute),
	},
	"C11": {
		Level:       "exploration",
		Technique:   "deterministic simulation as execution vehicle: in-process real client and daemon sessions in both directions at two privilege levels (root and uid 65534 worker processes), every subset of the preserve options; lstat oracle on exactly the promised fields; reference sender for name-based id mapping",
		Rule:        "sync mode: tree of up to 12 entries with permission values drawn from 0000..0777 (a quarter lacking owner write), mtimes over the signed 32-bit range incl. pre-1970 and sub-second parts, symlink targets of arbitrary bytes, devices, fifos, sockets, foreign uids/gids (root workers); options = -r plus a random subset of -p -t -l -D -o -g; arrangements A1/A2/A3 both directions; prior destination with stale/up-to-date files carrying their own permissions. Oracle per created entry: type; with -p mode bits; with -t regular-file mtime (seconds); with -l target; with -D rdev; as root with -o/-g owner/group; without -p an existing destination file keeps its mode. A quarter of the workers run unprivileged so that directories lacking owner write permission are a real obstacle. idmap mode (every 8th run, root): reference sender names remote uid/gid 4242/4343 as nobody|daemon|<unknown>: destination ids must be the local ids of those names, else the numeric ids. Non-trivial = more than one entry checked Prior destinations include wrong-type obstacles (symlink to a directory in the way of a directory, symlink to an up-to-date twin in the way of a file).",
		Assumptions: []string{"input/configuration-quantified: schedules vary per run but do not decide this property", "directory mtimes and modes of newly created files without -p are unconstrained by the property"},
		Real:        realCommon, Stub: stubCommon,
		Quick:           q(6000, 35*time.Second),
		Thorough:        q(1000000, 15*time.Minute),
		NonRootFraction: 0.25,
	},
	"C12": {
		Level:       "exploration",
		Technique:   "deterministic simulation: a reference protocol-27 sender serves the real receiving client a file list and destination files constructed to hit every cell of the update decision table; the oracle is the set of file indices the real generator requests, read off the wire by the reference sender. Repeat-sync idempotence with real sender and receiver is decided by decoding both recorded wire directions",
		Rule:        "table mode: per run one option combination of {-r} x {-t} x {-c} x {-I} (8 combinations, by run index) and the complete table {missing, same size + same content, other size, same size + other content} x {mtime equal, +1 s, -1 s, sub-second difference only, previous second but less than 1 s away, next second with fraction, far future, far past} plus directory/symlink in the way, names and wire order random; oracle: requested set == model (missing | not regular | size differs | -c: content differs | -I | mtime differs at 1 s granularity). repeat mode (every 4th run): real A1 sync of a random tree twice with -t/-a/-tc: second run must request nothing and move no literal byte; then the size, mtime or content of one source file is changed and exactly the rule-mandated request must follow. Non-trivial = >= 10 decided entries / first run requested files Every fifth run is the decision table between two real ends in a drawn arrangement (server or local copy receiving), judged by content; one table entry in ten is an empty file. The repeat mode runs in every scheduled arrangement.",
		Assumptions: []string{"refproto sender is the trusted base", "mtimes within the signed 32-bit range"},
		Real:        realCommon, Stub: append([]string{"table mode: sending peer is the reference sender"}, stubCommon...),
		Quick:    q(2500, 35*time.Second),
		Thorough: q(1000000, 15*time.Minute),
	},
	"C13": {
		Level:       "exploration",
		Technique:   "deterministic simulation: real client and daemon in pull, push and local arrangements; seeded generation of trees and 0-4 plain-name rules given via --exclude/--include/-f; reference model of first-match-wins filter semantics as oracle on the destination entry set",
		Rule:        "tree of up to 14 entries (depth <= 3), rules name files and directories in every position plus non-matching names; destination empty. Oracle: destination entry set == model selection (first matching rule decides; excluded directory takes its subtree; later siblings unaffected; include rules keep). 1 in 12 rules is a wildcard rule: then the session must fail with an error or produce rsync's glob selection, never crash, hang or select something else. Non-trivial = rules filtered out at least one entry (or a wildcard rule was rejected) A third of the runs transfer the contents of a sub-directory of the module/source; rules may contain a slash (unique tails) or end in a slash (names only directories bear).",
		Assumptions: []string{"model written from the property statement; anchored ('/name'), directory-only ('name/'), path ('dir/name') and '!' rules are outside the generated domain"},
		Real:        realCommon, Stub: stubCommon,
		Quick:    q(8000, 35*time.Second),
		Thorough: q(1000000, 15*time.Minute),
	},
	"C14": {
		Level:       "exploration",
		Technique:   "deterministic simulation: the same (source, destination, option subset) is run through all five arrangements under the scheduled transport; deadlock detector and error returns expose desynchronisation; destinations are compared pairwise and against the reference model's entry set",
		Rule:        "random subsets of {-r -l -p -t -g -o -D --devices --specials --no-D --no-l --no-p --no-t --no-g --no-o -c -I -n --delete -a} (+ --exclude) on a tree that always contains a symlink, fifo, socket, char device, nested and plain files; prior destination with up-to-date, stale and extraneous entries. Oracle: every arrangement succeeds (no protocol error, deadlock, crash); destination entry set == model (created types per option, --delete, -n, exclude); destinations of A2..A4 equal A1's on content, link target, rdev, perms (+ file mtime with -t, owner/group with -o/-g). One run in four adds 1-2 options the client's parser accepts but the model does not describe (-v.. --progress -H -u -d --no-r --info= --debug= --motd ...); those runs are judged by arrangement independence alone: all five arrangements end the same way (all succeed with equal destinations, or all refuse) and none hangs or crashes. Non-trivial = >= 2 arrangements compared The tree always contains a name that ends in a blank next to the same name without it, with rules for both.",
		Assumptions: []string{"runs as root so devices can be created", "sampled option subsets (2^20 x arrangements is not enumerated)"},
		Real:        realCommon, Stub: stubCommon,
		Quick:    q(2000, 45*time.Second),
		Thorough: q(1000000, 20*time.Minute),
	},
	"C15": {
		Level:       "exploration",
		Technique:   "deterministic simulation with an independent protocol-27 implementation (cross-checked against tridge rsync 3.2.7): strict decoding of what the real sender emits in daemon, command and client-sender roles, and encoding of file lists with every legal compression choice for the real receiver, whose listing must reproduce the entries",
		Rule:        "decode modes: random tree (names with arbitrary bytes, all entry types, foreign uids/gids, up to 150 entries) under a random subset of {-o -g -D -l -c -t -p}; the reference receiver decodes handshake, list, id lists and I/O-error word strictly, compares every field with lstat of the source, then requests every regular file by its own sorted index and must receive that file's bytes. encode mode: 1-30 (sometimes 200-1000; thorough 2000-10000) entries with names 1..4094 bytes, shared prefixes, sizes 0, 2^31-1, 2^31, 2^40, 2^62, every type and permission value, per-opportunity random choice of SAME_NAME/SAME_TIME/SAME_MODE/SAME_UID/SAME_GID/SAME_RDEV, 1- and 4-byte name lengths, forced 64-bit lengths, daemon or remote-shell handshake; the real receiver runs in list-only mode and its listing must equal the encoded entries in sorted order. Non-trivial = more than 2 entries Sparse files of 2-4 GiB are requested head-only: the checksum header of the sender's answer must describe the listed size.",
		Assumptions: []string{"refproto is the trusted base", "encode mode observes the receiver through its list-only output (mode string, size, mtime, name); uid/gid/rdev/link decoding is observed indirectly: a mis-decoded optional field desynchronises the following entries"},
		Real:        realCommon, Stub: append([]string{"peer: reference receiver / sender"}, stubCommon...),
		Quick:    q(4000, 40*time.Second),
		Thorough: q(1000000, 20*time.Minute),
	},
	"C16": {
		Level:       "exploration",
		Technique:   "deterministic simulation + wire-history monitor: literal bytes and block references counted in the real sender's token stream (decoded by the reference protocol-27 parser), with the real generator's signatures and with reference signatures at other block sizes; chunked scheduled transport and short-reading simulated disk",
		Rule:        "1-3 high-entropy files (2 KB..3 MiB quick, ..24 MiB thorough), the sender's version = receiver's copy + 0..4 edits (insert/delete/replace of 1..20000 bytes at unaligned offsets, prepend, append, block swap). Oracle: identical file => 0 literal bytes; otherwise literal bytes <= sum(new bytes of edit + 3B per continuity break) + B with B the block length seen in the echoed checksum header; reconstruction exact. Non-trivial = edited file longer than 4 blocks; distinct = distinct scenario A fifth of the files are 1..2100 bytes (below, at and just above one block). One edit in ten is an insertion of 270-670 KB (longer than the sender's literal flush threshold).",
		Assumptions: []string{"bound constant 3 is deliberately loose (an edit spoils the blocks it overlaps plus neighbours)", "refproto parser is the trusted base"},
		Real:        realCommon, Stub: append([]string{"mode ref: receiving peer is the reference receiver"}, stubCommon...),
		Quick:    q(1500, 45*time.Second),
		Thorough: q(1000000, 20*time.Minute),
	},
	"C17": {
		Level:       "exploration",
		Technique:   "deterministic simulation with a re-framing middlebox on the server-to-client direction (a fault-injecting transport stage): the real server's multiplexed output is decoded and re-cut into other legal frames with info frames, empty frames and an optional error frame, causally (only bytes already emitted are re-cut); differential oracle against the un-reframed run of the same scenario",
		Rule:        "sessions A1/A3 pull and A2/A3 push (server output = data or requests) on random trees with delta bases; re-framing: maximum data-frame size from {1,2,3,5,7,64,1000,4096,32768,65536,262144}, cut style uniform / always-max / always-1 / ending inside 4-byte words, info-frame runs of up to 1/3/120/500 before data frames with probability 0/5/30/100 %, empty data frames, in a fifth of the runs an error frame with a known message after a drawn number of data bytes. Oracle: same destination tree as the un-reframed run and success; with an error frame the client fails and its error carries the server's message. Every frame of the real server in the baseline run is checked: known tag, length <= 256 KiB, concatenated payloads parse as a valid protocol-27 sender stream. Non-trivial = more than 10 re-cut data frames or an error frame surfaced Server error messages may contain percent signs and format verbs.",
		Assumptions: []string{"frame sizes above 256 KiB are not generated: the client documents that limit and no known rsync sends them"},
		Real:        realCommon, Stub: append([]string{"middlebox (harness) between server and client"}, stubCommon...),
		Quick:    q(1500, 45*time.Second),
		Thorough: q(1000000, 20*time.Minute),
	},
	"C18": {
		ExtraTags:        "nonamespacing",
		MaxJobsPerWorker: 10,
		Level:            "exploration",
		Technique:        "deterministic simulation: seeded scheduler over the capacity/chunking/bias matrix with exact deadlock detection (no enabled transport action while operations are pending), stall faults, 2-32 concurrent sessions against one Server interleaved by one schedule tape; plus free-running sessions under the Go race detector at GOMAXPROCS 1/4/16",
		Rule:             "term mode: one session A1/A2/A3/A4 with capacities from {0,1,7,64,64Ki,unbounded}^2 (daemon arrangements >= 12 bytes: both ends write their greeting first), chunking style, scheduling bias, optional stall fault, tree mixing tiny files / multi-MiB literals / multi-MiB bases; violation = deadlock or step-budget exhaustion, or a session that ends with an error under the drawn transport although it succeeds on the canonical one (schedule independence); in a quarter of the runs one literal data byte is damaged in flight (located by decoding a fault-free run) and the session must still complete with an error (error-path termination). multi mode: 2-32 concurrent pulls/uploads (distinct and identical targets) via Server.Serve(simulated listener); every session must succeed and its result must equal the same session run alone; a quarter of the workers run the free-running variant in a -race build, and a third of the multi runs on ordinary workers are free-running too (40-200 directories, 4-11 identical uploads to one fresh target) so that handlers really overlap between system calls. Non-trivial = more than 50 scheduler steps (term) or >= 2 sessions on a non-empty tree (multi) A third of the multi-session runs contain stalled peers (1-3, sometimes 17-24) that stop reading in mid-transfer, scheduled or free-running (60 s wall-clock deadline): every other session must finish. One run in fifteen starts the real daemon with its anonymous SSH listener and mixes silent peers with daemon sessions. A deadlocked session is re-run on the canonical transport: if it ends with an error there, the hang is an error-path hang (recorded finding for A2/A3s), else a deadlock of a valid session. The termination mode draws output options (-v, --progress, --info, --debug); a quarter of the multi-session runs are one to three free-running sessions on pipes of 12..4096 bytes with those options (no result within 45 s, twice = deadlock); a fifth of the scheduled multi-session runs serve the read-only module from an fs.FS that has a Close method.",
		Assumptions:      []string{"race detection is happens-before analysis on free-running in-memory transports (not schedule search): the deterministic scheduler would add happens-before edges", "A4 interleaving is chosen by the Go runtime; hang detection there is exact via synctest quiescence", "capacities below 12 bytes are not generated for daemon arrangements (greeting deadlock is protocol-inherent)"},
		Real:             realCommon, Stub: stubCommon,
		Quick:        q(1500, 60*time.Second),
		Thorough:     q(1000000, 25*time.Minute),
		RaceFraction: 0.25,
	},
}
