// Package model is a small executable reference model of rsync semantics on
// abstract trees, written from the property statements (not from the code under
// test): which entries a set of source arguments selects, under which names,
// which of them the update rule transfers, what --delete removes and which
// metadata must be reproduced. It never imports the repository.
package model

import (
	"path"
	"sort"
	"strings"

	"verif/sim/fstree"
)

// Opts are the transfer options that influence semantics.
type Opts struct {
	Recursive bool
	Links     bool
	Perms     bool
	Times     bool
	Group     bool
	Owner     bool
	Devices   bool
	Specials  bool
	Checksum  bool
	Ignore    bool // -I
	DryRun    bool
	Delete    bool
	Rules     []Rule
}

// Rule is a plain-name filter rule.
type Rule struct {
	Include bool
	Pattern string
}

// ParseOpts understands the option spellings the generators use.
func ParseOpts(args []string) Opts {
	var o Opts
	for i := 0; i < len(args); i++ {
		a := args[i]
		switch {
		case a == "--delete":
			o.Delete = true
		case a == "--dry-run":
			o.DryRun = true
		case a == "--devices":
			o.Devices = true
		case a == "--specials":
			o.Specials = true
		case a == "--no-devices":
			o.Devices = false
		case a == "--no-specials":
			o.Specials = false
		case a == "--no-D":
			o.Devices, o.Specials = false, false
		case a == "--no-links", a == "--no-l":
			o.Links = false
		case a == "--no-perms", a == "--no-p":
			o.Perms = false
		case a == "--no-times", a == "--no-t":
			o.Times = false
		case a == "--no-group", a == "--no-g":
			o.Group = false
		case a == "--no-owner", a == "--no-o":
			o.Owner = false
		case a == "--no-recursive", a == "--no-r":
			o.Recursive = false
		case a == "--checksum":
			o.Checksum = true
		case a == "--no-checksum", a == "--no-c":
			o.Checksum = false
		case a == "--ignore-times":
			o.Ignore = true
		case a == "--recursive":
			o.Recursive = true
		case a == "--links":
			o.Links = true
		case a == "--perms":
			o.Perms = true
		case a == "--times":
			o.Times = true
		case a == "--group":
			o.Group = true
		case a == "--owner":
			o.Owner = true
		case a == "--archive":
			o.archive()
		case strings.HasPrefix(a, "--exclude="):
			o.Rules = append(o.Rules, Rule{false, strings.TrimPrefix(a, "--exclude=")})
		case strings.HasPrefix(a, "--include="):
			o.Rules = append(o.Rules, Rule{true, strings.TrimPrefix(a, "--include=")})
		case a == "--exclude" && i+1 < len(args):
			i++
			o.Rules = append(o.Rules, Rule{false, args[i]})
		case a == "--include" && i+1 < len(args):
			i++
			o.Rules = append(o.Rules, Rule{true, args[i]})
		case strings.HasPrefix(a, "--filter="), a == "-f" && i+1 < len(args):
			var r string
			if a == "-f" {
				i++
				r = args[i]
			} else {
				r = strings.TrimPrefix(a, "--filter=")
			}
			if strings.HasPrefix(r, "- ") {
				o.Rules = append(o.Rules, Rule{false, r[2:]})
			} else if strings.HasPrefix(r, "+ ") {
				o.Rules = append(o.Rules, Rule{true, r[2:]})
			}
		case strings.HasPrefix(a, "--"):
		case strings.HasPrefix(a, "-"):
			for _, c := range a[1:] {
				switch c {
				case 'r':
					o.Recursive = true
				case 'l':
					o.Links = true
				case 'p':
					o.Perms = true
				case 't':
					o.Times = true
				case 'g':
					o.Group = true
				case 'o':
					o.Owner = true
				case 'D':
					o.Devices, o.Specials = true, true
				case 'c':
					o.Checksum = true
				case 'I':
					o.Ignore = true
				case 'n':
					o.DryRun = true
				case 'a':
					o.archive()
				}
			}
		}
	}
	return o
}

func (o *Opts) archive() {
	o.Recursive, o.Links, o.Perms, o.Times, o.Group, o.Owner, o.Devices, o.Specials = true, true, true, true, true, true, true, true
}

// Arg is a source argument relative to the source root snapshot.
type Arg struct {
	Path  string // "" = the root itself
	Slash bool
}

// Listed is one selected entry.
type Listed struct {
	Name    string // name relative to the destination root; "." for a top directory
	SrcPath string // path in the source snapshot ("." for the root)
	Node    fstree.Node
	TopDir  bool
}

// Excluded reports whether the first plain-name rule matching name's basename
// is an exclude rule. Patterns without '/' match the basename at any depth;
// patterns containing '/' are compared with the whole name (anchoring rules
// are outside the plain-name domain and not generated).
func Excluded(rules []Rule, name string) bool {
	base := path.Base(name)
	for _, r := range rules {
		var m bool
		pat := r.Pattern
		// a trailing slash restricts a rule to directories; generators only
		// use it for names that nothing but directories bear
		pat = strings.TrimSuffix(pat, "/")
		if strings.Contains(pat, "/") {
			m = pat == name
		} else {
			m = pat == base
		}
		if m {
			return !r.Include
		}
	}
	return false
}

// Select computes the entries that the source arguments select, with their
// destination-relative names. rootBase is the basename of the source root
// directory (used when the root itself is named without a trailing slash).
// daemonRoot: when true an argument naming the root without a slash behaves
// like one with a slash (a daemon module root is always transferred as its
// contents).
func Select(src fstree.Snap, args []Arg, rootBase string, daemonRoot bool, o Opts) []Listed {
	var out []Listed
	paths := src.Paths()
	for _, a := range args {
		p := a.Path
		if p == "" {
			p = "."
		}
		node, ok := src[p]
		if !ok {
			continue
		}
		if node.Type != "d" {
			name := path.Base(p)
			if !Excluded(o.Rules, name) {
				out = append(out, Listed{Name: name, SrcPath: p, Node: node})
			}
			continue
		}
		if !o.Recursive {
			// directories are skipped without -r
			continue
		}
		contents := a.Slash || (p == "." && daemonRoot)
		prefix := ""
		if !contents {
			if p == "." {
				prefix = rootBase
			} else {
				prefix = path.Base(p)
			}
		}
		rootName := "."
		if prefix != "" {
			rootName = prefix
		}
		if prefix != "" && Excluded(o.Rules, rootName) {
			continue
		}
		out = append(out, Listed{Name: rootName, SrcPath: p, Node: node, TopDir: prefix == ""})
		var pruned []string
		for _, sp := range paths {
			var rel string
			if p == "." {
				if sp == "." {
					continue
				}
				rel = sp
			} else {
				if !strings.HasPrefix(sp, p+"/") {
					continue
				}
				rel = sp[len(p)+1:]
			}
			skip := false
			for _, pr := range pruned {
				if strings.HasPrefix(rel, pr+"/") {
					skip = true
					break
				}
			}
			if skip {
				continue
			}
			name := rel
			if prefix != "" {
				name = prefix + "/" + rel
			}
			if Excluded(o.Rules, name) {
				pruned = append(pruned, rel)
				continue
			}
			out = append(out, Listed{Name: name, SrcPath: sp, Node: src[sp]})
		}
	}
	sort.SliceStable(out, func(i, j int) bool { return out[i].Name < out[j].Name })
	return out
}

// NeedsTransfer is the update rule of the property C12/C01: a regular file is
// (re)sent iff it is missing, not a regular file, its size differs, or - by
// default - its mtime differs at one-second granularity; with -c iff size or
// content differs; with -I (and no -c) always.
func NeedsTransfer(srcN fstree.Node, dst *fstree.Node, o Opts) bool {
	if dst == nil || dst.Type != "f" {
		return true
	}
	if dst.Size != srcN.Size {
		return true
	}
	if o.Checksum {
		return dst.Sum != srcN.Sum
	}
	if o.Ignore {
		return true
	}
	return dst.Mtime != srcN.Mtime
}

// WouldCreate reports whether the receiver acts on an entry of this type at
// all under the options (regular files and directories always; symlinks with
// -l; devices with --devices; fifos and sockets with --specials).
func WouldCreate(n fstree.Node, o Opts) bool {
	switch n.Type {
	case "f", "d":
		return true
	case "l":
		return o.Links
	case "chr", "blk":
		return o.Devices
	case "fifo", "sock":
		return o.Specials
	}
	return false
}
