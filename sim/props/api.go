package props

import (
	"encoding/json"
	"fmt"
	"os"
	"path/filepath"
	"sort"
	"testing"

	"verif/sim/fstree"
	"verif/sim/kernel"
)

// Job is one unit of work handed to a worker process.
type Job struct {
	Prop     string          `json:"prop"`
	Seed     uint64          `json:"seed"`
	Tier     string          `json:"tier"`
	Index    int             `json:"index"`
	Scenario json.RawMessage `json:"scenario,omitempty"` // explicit scenario (replay / minimisation)
	Scratch  string          `json:"scratch"`
	WantTape bool            `json:"want_tape,omitempty"`
	DumpOnly bool            `json:"dump_only,omitempty"`
}

// Violation describes a property violation. Kind+Signature form the violation
// class used for minimisation and for matching known findings.
type Violation struct {
	Kind      string `json:"kind"`
	Signature string `json:"signature"`
	Detail    string `json:"detail"`
}

// Result is what a worker reports for one job.
type Result struct {
	Prop         string          `json:"prop"`
	Seed         uint64          `json:"seed"`
	Index        int             `json:"index"`
	Invalid      string          `json:"invalid,omitempty"`      // scenario outside the domain (shrinker candidates)
	Inconclusive string          `json:"inconclusive,omitempty"` // harness trouble: never a violation
	Violation    *Violation      `json:"violation,omitempty"`
	Scenario     json.RawMessage `json:"scenario,omitempty"`
	Key          string          `json:"key"`
	NonTrivial   bool            `json:"nontrivial"`
	// Recycle asks the driver to give this worker process no further jobs
	// (process-wide resources such as landlock layers are nearly used up).
	Recycle    bool           `json:"recycle,omitempty"`
	Sessions   int            `json:"sessions"`
	Steps      int            `json:"steps"`
	Bytes      int64          `json:"bytes"`
	SimTimeMs  int64          `json:"sim_ms"`
	Faults     map[string]int `json:"faults,omitempty"`
	Probes     map[string]int `json:"probes,omitempty"`
	Shapes     []uint64       `json:"shapes,omitempty"`
	Hashes     []uint64       `json:"hashes,omitempty"`
	Sample     any            `json:"sample,omitempty"`
	Exhaustive bool           `json:"exhaustive,omitempty"`
}

func (r *Result) Probe(name string, n int) {
	if r.Probes == nil {
		r.Probes = map[string]int{}
	}
	r.Probes[name] += n
}

func (r *Result) Fault(name string, n int) {
	if n == 0 {
		return
	}
	if r.Faults == nil {
		r.Faults = map[string]int{}
	}
	r.Faults[name] += n
}

func (r *Result) AddSession(s *SessionResult) {
	if s.Harness != "" {
		r.Inconclusive = s.Harness
	}
	r.Sessions++
	r.Steps += s.Stats.Steps
	r.Bytes += s.Stats.Bytes
	r.SimTimeMs += s.Stats.SimTime.Milliseconds()
	r.Shapes = append(r.Shapes, s.Shape)
	r.Hashes = append(r.Hashes, s.Hash)
	r.Fault("cut", s.Stats.CutFired)
	r.Fault("flip", s.Stats.FlipFired)
	r.Fault("freeze", s.Stats.FreezeFired)
	r.Fault("stall_steps", s.Stats.StallSteps)
	for k, v := range s.Stats.Actions {
		r.Probe("act_"+string(rune(k)), v)
	}
}

// Merge adds the counters of a preliminary phase (sessions, steps, probes).
func (r *Result) Merge(o *Result) {
	if o == nil {
		return
	}
	r.Sessions += o.Sessions
	r.Steps += o.Steps
	r.Bytes += o.Bytes
	r.SimTimeMs += o.SimTimeMs
	r.Shapes = append(r.Shapes, o.Shapes...)
	r.Hashes = append(r.Hashes, o.Hashes...)
	for k, v := range o.Probes {
		r.Probe(k, v)
	}
	for k, v := range o.Faults {
		r.Fault(k, v)
	}
}

func (r *Result) Violate(kind, sig, detail string) {
	if r.Violation == nil {
		if len(detail) > 6000 {
			detail = detail[:6000] + "…"
		}
		r.Violation = &Violation{Kind: kind, Signature: sig, Detail: detail}
	}
}

// Property is implemented once per property id.
type Property interface {
	// NewScenario returns a pointer to an empty scenario for unmarshalling.
	NewScenario() any
	// Generate draws the scenario of run (seed, index) for the tier.
	Generate(seed uint64, tier string, index int) any
	// Run executes the scenario and judges it.
	Run(t *testing.T, scenario any, job *Job, res *Result)
}

var Registry = map[string]Property{}

func Register(id string, p Property) { Registry[id] = p }

// Execute runs one job.
func Execute(t *testing.T, job *Job) *Result {
	res := &Result{Prop: job.Prop, Seed: job.Seed, Index: job.Index}
	p, ok := Registry[job.Prop]
	if !ok {
		res.Inconclusive = "unknown property " + job.Prop
		return res
	}
	var sc any
	if len(job.Scenario) > 0 {
		sc = p.NewScenario()
		if err := json.Unmarshal(job.Scenario, sc); err != nil {
			res.Invalid = "unmarshal: " + err.Error()
			return res
		}
	} else {
		sc = p.Generate(job.Seed, job.Tier, job.Index)
	}
	if job.DumpOnly {
		b, _ := json.Marshal(sc)
		res.Scenario = b
		return res
	}
	if job.Scratch == "" {
		job.Scratch = filepath.Join(os.TempDir(), "verif-run")
	}
	fstree.RemoveAll(job.Scratch)
	if err := os.MkdirAll(job.Scratch, 0755); err != nil {
		res.Inconclusive = err.Error()
		return res
	}
	defer fstree.RemoveAll(job.Scratch)
	b, _ := json.Marshal(sc)
	res.Key = fmt.Sprintf("%016x", kernel.Derive(1, string(b)))
	p.Run(t, sc, job, res)
	if res.Inconclusive != "" {
		res.Violation = nil // harness trouble is never reported as a violation
	}
	if res.Violation != nil || job.WantTape {
		// scenario with the recorded schedule made explicit
		b, _ = json.Marshal(sc)
		res.Scenario = b
	}
	return res
}

func uniqU64(in []uint64) []uint64 {
	sort.Slice(in, func(i, j int) bool { return in[i] < in[j] })
	out := in[:0]
	for i, v := range in {
		if i == 0 || v != in[i-1] {
			out = append(out, v)
		}
	}
	return out
}
