package props

import (
	"context"
	"fmt"
	"io/fs"
	"os"
	"path/filepath"
	"strings"
	"sync"
	"sync/atomic"
	"testing"
	"testing/synctest"
	"time"

	"github.com/gokrazy/rsync/rsyncclient"
	"github.com/gokrazy/rsync/rsyncd"

	"verif/sim/fstree"
	"verif/sim/kernel"
	"verif/sim/model"
)

// C18: sessions terminate and do not interfere under any interleaving.

type MSess struct {
	Kind  string   `json:"kind"` // pull | push-distinct | push-same
	CapCS int      `json:"cap_cs"`
	CapSC int      `json:"cap_sc"`
	Opts  []string `json:"opts"`
	// StallAt > 0 (pull only): this client stops reading for good once it has
	// consumed StallAt bytes of the server's output - a stalled peer. It is
	// outside the guarantee itself, but must not hold up any other session.
	StallAt int64 `json:"stall_at,omitempty"`
}

type MultiScenario struct {
	Src      fstree.Tree `json:"src"`
	Sessions []MSess     `json:"sessions"`
	Tr       Transport   `json:"tr"`
	Free     bool        `json:"free,omitempty"` // free-running transports (race detector runs)
	// TinyFree: free-running sessions on pipes of a few bytes with output
	// options: a timeout (twice) is a deadlock, not harness trouble
	TinyFree bool `json:"tiny_free,omitempty"`
	// ClosableFS: the read-only module is backed by an fs.FS that also has a
	// Close method (as an archive- or network-backed FS would): whatever one
	// session does to it at its end must not affect the sessions still running.
	ClosableFS bool `json:"closable_fs,omitempty"`
}

type C18Scenario struct {
	Mode  string         `json:"mode"` // term | multi | ssh
	Sync  *SyncScenario  `json:"sync,omitempty"`
	Multi *MultiScenario `json:"multi,omitempty"`
	// SSH (mode ssh): sessions against the daemon's anonymous SSH listener,
	// some of them peers that connect and stay silent; every other session
	// must be served as if it were alone.
	SSH *C20Scenario `json:"ssh,omitempty"`
	// LitFlip > 0 (term mode): one literal data byte (the LitFlip-th, modulo
	// the number available, located by decoding a fault-free run) is damaged in
	// flight, so that the receiver detects a checksum mismatch in mid-session:
	// the session must still run to completion (with an error).
	LitFlip int `json:"lit_flip,omitempty"`
}

type c18 struct{}

func init() { Register("C18", c18{}) }

func (c18) NewScenario() any { return &C18Scenario{} }

var c18Caps = []int{0, 1, 7, 64, 65536, kernel.Unbounded}

func (c18) Generate(seed uint64, tier string, index int) any {
	g := NewGen(kernel.Derive(seed, "workload"), tier == "thorough")
	race := os.Getenv("VERIF_RACE") != ""
	if !race && g.R.Intn(15) == 0 {
		ssh := &C20Scenario{Mode: "anon", Keys: []C20Key{{Type: c20KeyTypes[g.R.Intn(len(c20KeyTypes))]}}}
		nd := 2 + g.R.Intn(3)
		for i := 0; i < nd; i++ {
			for g.R.Intn(2) == 0 {
				ssh.Sessions = append(ssh.Sessions, C20Session{Op: "silent"})
			}
			ssh.Sessions = append(ssh.Sessions, C20Session{Op: "daemon", Cmd: c20DaemonCmds[g.R.Intn(len(c20DaemonCmds))]})
		}
		ssh.Tr = Transport{CapCS: kernel.Unbounded, CapSC: kernel.Unbounded, Chunk: g.R.Intn(4), Bias: g.R.Intn(2), SchedSeed: g.R.Uint64() >> 1}
		return &C18Scenario{Mode: "ssh", SSH: ssh}
	}
	if race || g.R.Intn(3) == 0 {
		ms := &MultiScenario{Free: race}
		ms.Src = g.Tree(TreeOpts{MaxEntries: 8, ByteBudget: 600 << 10, PlainNames: true, Symlinks: true, FixedPerms: false})
		n := 2 + g.R.Intn(5)
		if tier == "thorough" || race {
			n = 2 + g.R.Intn(31)
		}
		kinds := []string{"pull", "pull", "push-distinct", "push-same"}
		for i := 0; i < n; i++ {
			s := MSess{Kind: kinds[g.R.Intn(len(kinds))], Opts: []string{"-rlptD"}}
			pick := func() int {
				for {
					c := c18Caps[g.R.Intn(len(c18Caps))]
					if c == kernel.Unbounded || c >= 12 {
						return c
					}
				}
			}
			s.CapCS, s.CapSC = pick(), pick()
			ms.Sessions = append(ms.Sessions, s)
		}
		if !race && g.R.Intn(4) == 0 {
			// one to three sessions, free-running, on pipes of a few bytes, with
			// output options: locks shared between the two directions show up
			// as a run that never ends
			ms.Free, ms.TinyFree = true, true
			ms.Sessions = nil
			extra := [][]string{{}, {"-v"}, {"--progress"}, {"-vv", "--progress"}, {"--info=NAME"}, {"--debug=RECV,SEND"}}[g.R.Intn(6)]
			capacity := []int{12, 12, 16, 16, 24, 64, 700, 4096}[g.R.Intn(8)] // (a daemon greeting needs 12 bytes per direction)
			for i := 0; i < 1+g.R.Intn(3); i++ {
				ms.Sessions = append(ms.Sessions, MSess{Kind: []string{"pull", "pull", "push-distinct"}[g.R.Intn(3)], CapCS: capacity, CapSC: capacity, Opts: append([]string{"-rlptD"}, extra...)})
			}
			ms.Tr = g.TransportFor(12, 4*treeBytes(&ms.Src))
			return &C18Scenario{Mode: "multi", Multi: ms}
		}
		if !race && g.R.Intn(3) == 0 {
			// stalled peers: some (sometimes more than there are CPUs) pulling
			// clients stop reading in mid-transfer; everybody else must finish
			k := 1 + g.R.Intn(3)
			if g.R.Intn(3) == 0 {
				k = 17 + g.R.Intn(8)
			}
			for i := 0; i < k; i++ {
				at := int64(100 + g.R.Intn(4000))
				if g.R.Bool() {
					at = int64(100 + g.R.Intn(200000))
				}
				st := MSess{Kind: "pull", Opts: []string{"-rlptD"}, CapCS: 65536, CapSC: []int{12, 64, 4096, 65536}[g.R.Intn(4)], StallAt: at}
				pos := g.R.Intn(len(ms.Sessions) + 1)
				ms.Sessions = append(ms.Sessions[:pos], append([]MSess{st}, ms.Sessions[pos:]...)...)
			}
			n = len(ms.Sessions)
			// half of these runs are free-running (real goroutines, wall-clock
			// deadline): a handler that waits on something that is not a
			// transport operation (a process-wide semaphore, a lock) is invisible
			// to the scheduled mode, whose quiescence detection it merely stalls
			ms.Free = g.R.Bool()
			ms.Tr = g.TransportFor(12, int64(n)*2*treeBytes(&ms.Src))
			return &C18Scenario{Mode: "multi", Multi: ms}
		}
		ms.Tr = g.TransportFor(12, int64(n)*2*treeBytes(&ms.Src))
		ms.ClosableFS = !race && g.R.Intn(5) == 0
		if !race && !ms.ClosableFS && g.R.Intn(3) == 0 {
			// truly concurrent handlers (the scheduled mode runs one party at a
			// time between transport operations): many directories to create,
			// several uploads of identical content to the identical fresh target
			ms.Free = true
			ms.Src = fstree.Tree{}
			nd := 40 + g.R.Intn(160)
			for i := 0; i < nd; i++ {
				ms.Src.Entries = append(ms.Src.Entries, fstree.Entry{Path: fstree.Name(fmt.Sprintf("d%03d/e%d/f%d", i%50, i%7, i%3)), Type: "d", Perm: 0o755, Mtime: 1_500_000_000})
			}
			ms.Sessions = nil
			for i := 0; i < 4+g.R.Intn(8); i++ {
				ms.Sessions = append(ms.Sessions, MSess{Kind: "push-same", CapCS: 65536, CapSC: 65536, Opts: []string{"-rlptD"}})
			}
		}
		return &C18Scenario{Mode: "multi", Multi: ms}
	}
	// termination: capacity matrix x chunking x bias x stalls x size mixes
	arr := []string{"A1", "A2", "A3p", "A3s", "A3p", "A3s", "A4"}[g.R.Intn(7)]
	to := TreeOpts{MaxEntries: 10, ByteBudget: 3 << 20, PlainNames: true}
	switch g.R.Intn(4) {
	case 0: // many tiny files
		to.MaxEntries = 60
		to.ByteBudget = 40 << 10
	case 1: // huge literal / huge basis
		to.MaxEntries = 3
		to.ByteBudget = 6 << 20
	}
	if tier == "thorough" {
		to.ByteBudget *= 3
	}
	topts := []string{"-rt"}
	if g.R.Intn(3) == 0 {
		// output options: whatever is printed (and whatever lock guards the
		// printing) must not couple the two directions of the transport
		topts = append(topts, [][]string{{"-v"}, {"--progress"}, {"-vv", "--progress"}, {"--info=NAME"}, {"-v", "--info=FLIST2"}, {"--debug=RECV,SEND"}}[g.R.Intn(6)]...)
	}
	sc := genSync(g, arr, topts, to, false)
	sc.ModuleFS = false
	sc.Sources = []SrcArg{{Path: "", Slash: true}}
	// the prior destination must belong to THIS source selection: genSync drew
	// it for the source arguments it had chosen itself, and entries placed for
	// another selection become accidental obstacles (a non-empty directory
	// where a file must go), i.e. sessions that fail - those are the business
	// of the literal-flip mode and of the recorded error-path finding
	{
		var ls []listedSrc
		for _, l := range model.Select(fstree.SpecSnap(&sc.Src, false), modelArgs(sc.Sources), "src", arr == "A1", model.ParseOpts(sc.Opts)) {
			if e := sc.Src.Find(l.SrcPath); e != nil {
				ls = append(ls, listedSrc{Name: l.Name, Entry: *e})
			}
		}
		sc.Dst = g.PriorDest(ls, false, g.R.Intn(3))
	}
	// emphasise the capacity matrix
	pick := func(min int) int {
		for {
			c := c18Caps[g.R.Intn(len(c18Caps))]
			if c == kernel.Unbounded || c >= min {
				return c
			}
		}
	}
	min := 0
	if arr == "A1" || arr == "A2" {
		min = 12
	}
	vol := 2*treeBytes(&sc.Src) + treeBytes(&sc.Dst)
	sc.Tr = g.TransportFor(min, vol)
	sc.Tr.CapCS, sc.Tr.CapSC = pick(min), pick(min)
	if sc.Tr.MinChunk > 1 {
		for _, c := range []*int{&sc.Tr.CapCS, &sc.Tr.CapSC} {
			if *c > 0 && *c < 4096 && vol > 400000 {
				*c = 4096
			}
		}
	}
	if g.R.Intn(3) == 0 {
		sc.Faults = append(sc.Faults, Fault{Kind: "stall", Node: []string{"client", "server"}[g.R.Intn(2)], At: int64(g.R.Intn(400)), Len: 1 + g.R.Intn(300)})
	}
	out := &C18Scenario{Mode: "term", Sync: &sc}
	if arr != "A4" && g.R.Intn(4) == 0 {
		out.LitFlip = 1 + g.R.Intn(1<<20)
	}
	return out
}

func (c18) Run(t *testing.T, scenario any, job *Job, res *Result) {
	sc := scenario.(*C18Scenario)
	lay := NewLayout(job.Scratch)
	switch sc.Mode {
	case "term":
		if sc.Sync == nil {
			res.Invalid = "no sync scenario"
			return
		}
		if a := sc.Sync.Arr; a == "A1" || a == "A2" {
			// the daemon greeting is written by both ends at once: a transport
			// that cannot hold one greeting line (12 bytes) per direction is
			// outside the domain (no socket has such a buffer; see DESIGN 15)
			for _, c := range []int{sc.Sync.Tr.CapCS, sc.Sync.Tr.CapSC} {
				if c >= 0 && c < 12 {
					res.Invalid = "daemon arrangements need 12 bytes of buffer per direction for the simultaneous greeting"
					return
				}
			}
		}
		if err := prepare(sc.Sync, lay); err != nil {
			res.Invalid = err.Error()
			return
		}
		if sc.LitFlip > 0 && sc.Sync.Arr != "A4" {
			// fault-free run first, to locate the literal bytes on the wire
			base := RunSyncSession(t, sc.Sync, lay, SessionHooks{TapWire: true, MaxWire: 64 << 20})
			res.AddSession(base)
			if base.Outcome == kernel.Finished && base.ClientErr == nil && base.ServerErr == nil {
				if ps, err := parseSenderSide(sc.Sync, base); err == nil {
					var lits []int64
					for _, rp := range ps.Replies {
						for _, to := range rp.TokOffs {
							if to.Lit > 0 {
								lits = append(lits, to.Off+4+int64(sc.LitFlip%to.Lit)-ps.MuxBase)
							}
						}
					}
					if len(lits) > 0 {
						pull := sc.Sync.Arr == "A1" || sc.Sync.Arr == "A3p"
						wire, dir := base.WireCS, 0
						if pull {
							wire, dir = base.WireSC, 1
						}
						raw := rawOffsetOf(wire, psPreamble(sc.Sync, wire), pull, lits[sc.LitFlip%len(lits)])
						if raw > 0 {
							if err := prepare(sc.Sync, lay); err != nil {
								res.Inconclusive = err.Error()
								return
							}
							run := *sc.Sync
							run.Faults = append(append([]Fault(nil), sc.Sync.Faults...), Fault{Kind: "flip", Dir: dir, At: raw, Bit: sc.LitFlip % 8})
							f := RunSyncSession(t, &run, lay, SessionHooks{})
							res.AddSession(f)
							res.Probe("literal_flip_runs", 1)
							if f.ClientErr != nil || f.ServerErr != nil {
								res.Probe("literal_flip_detected_by_receiver", 1)
							}
							if f.Outcome == kernel.Deadlock || f.Outcome == kernel.StepBudget {
								res.Violate("deadlock", "error-path-hang:"+sc.Sync.Arr, fmt.Sprintf("a literal byte was damaged in flight (raw offset %d, direction %d); the receiving side detects the mismatch but the session never completes: %s\nclient stderr: %s\nserver stderr: %s", raw, dir, f.Pending, tail(f.ClientStderr, 600), tail(f.ServerStderr, 600)))
								setTape(&sc.Sync.Tr, f)
								return
							}
						}
					}
				}
			}
			if err := prepare(sc.Sync, lay); err != nil {
				res.Inconclusive = err.Error()
				return
			}
		}
		s := RunSyncSession(t, sc.Sync, lay, SessionHooks{})
		res.AddSession(s)
		res.Probe("arr_"+sc.Sync.Arr, 1)
		res.Probe(fmt.Sprintf("cap_%d_%d", sc.Sync.Tr.CapCS, sc.Sync.Tr.CapSC), 1)
		switch s.Outcome {
		case kernel.Deadlock:
			// Is this a session that would succeed, or one that fails anyway (an
			// entry in the way that cannot be removed, ...) and merely does not
			// get its error out? The same scenario on the canonical transport
			// (unbounded buffers, whole-message deliveries) tells: the second
			// kind is the recorded error-path hang, not a deadlock of valid
			// sessions. Both are violations; they are different defects.
			sig := "deadlock:" + sc.Sync.Arr
			note := ""
			if sc.Sync.Arr != "A4" {
				canon := *sc.Sync
				canon.Faults = nil
				canon.Tr = Transport{CapCS: kernel.Unbounded, CapSC: kernel.Unbounded, Chunk: kernel.ChunkMax, Bias: kernel.BiasCanonical, SchedSeed: sc.Sync.Tr.SchedSeed, Seed: sc.Sync.Tr.Seed, ReadWindow: sc.Sync.Tr.ReadWindow, MinBlock: sc.Sync.Tr.MinBlock}
				if err := prepare(&canon, lay); err == nil {
					c := RunSyncSession(t, &canon, lay, SessionHooks{})
					res.AddSession(c)
					if c.Harness == "" && c.Outcome == kernel.Finished && (c.ClientErr != nil || c.ServerErr != nil) {
						sig = "error-path-hang:" + sc.Sync.Arr
						note = fmt.Sprintf("\n(on the canonical transport the same session ends with an error: client %v, server %v - the hang is on the error path)", c.ClientErr, c.ServerErr)
					}
				}
			}
			res.Violate("deadlock", sig, "no transport operation enabled and the session has not finished: "+s.Pending+note+
				"\nclient stderr: "+tail(s.ClientStderr, 1200)+"\nserver stderr: "+tail(s.ServerStderr, 1200)+"\n"+s.Panic)
			setTape(&sc.Sync.Tr, s)
		case kernel.StepBudget:
			res.Violate("livelock", "step-budget:"+sc.Sync.Arr, "step budget exhausted: "+s.Pending)
			setTape(&sc.Sync.Tr, s)
		}
		if s.Panic != "" && res.Violation == nil {
			res.Violate("panic", panicSignature(s.Panic), s.Panic)
		}
		if res.Violation == nil && s.Outcome == kernel.Finished && (s.ClientErr != nil || s.ServerErr != nil) && sc.Sync.Arr != "A4" && len(sc.Sync.Faults) == 0 {
			// the session completed with an error: it must do so on every
			// reliable ordered byte stream, in particular on the canonical
			// transport (unbounded buffers, whole writes delivered at once)
			canon := *sc.Sync
			canon.Tr = Transport{CapCS: kernel.Unbounded, CapSC: kernel.Unbounded, Chunk: kernel.ChunkMax, Bias: kernel.BiasCanonical, SchedSeed: sc.Sync.Tr.SchedSeed, Seed: sc.Sync.Tr.Seed}
			if err := prepare(&canon, lay); err == nil {
				c := RunSyncSession(t, &canon, lay, SessionHooks{})
				res.AddSession(c)
				if c.Outcome == kernel.Finished && c.ClientErr == nil && c.ServerErr == nil {
					res.Violate("schedule-dependent-failure", "fails-only-under-this-transport:"+sc.Sync.Arr, fmt.Sprintf("the session succeeds on the canonical transport but fails under capacities %d/%d chunk style %d bias %d: client %v, server %v", sc.Sync.Tr.CapCS, sc.Sync.Tr.CapSC, sc.Sync.Tr.Chunk, sc.Sync.Tr.Bias, s.ClientErr, s.ServerErr))
					setTape(&sc.Sync.Tr, s)
				}
			}
		}
		res.NonTrivial = s.Stats.Steps > 50 || sc.Sync.Arr == "A4"
		res.Sample = map[string]any{"mode": "term", "arr": sc.Sync.Arr, "cap": []int{sc.Sync.Tr.CapCS, sc.Sync.Tr.CapSC}, "chunk": sc.Sync.Tr.Chunk,
			"bias": sc.Sync.Tr.Bias, "faults": sc.Sync.Faults, "src_entries": len(sc.Sync.Src.Entries), "bytes": treeBytes(&sc.Sync.Src), "steps": s.Stats.Steps, "outcome": s.Outcome.String()}
	case "ssh":
		if sc.SSH == nil || sc.SSH.Mode != "anon" {
			res.Invalid = "ssh scenario"
			return
		}
		nsilent := 0
		for _, x := range sc.SSH.Sessions {
			switch x.Op {
			case "silent":
				nsilent++
			case "daemon":
			default:
				res.Invalid = "ssh mode runs daemon invocations and silent peers only"
				return
			}
		}
		// (C20's workers run with this set: the daemon then takes the listeners
		// it is handed instead of resolving and binding the configured address)
		os.Setenv("GOKRAZY_RSYNC_PRIVDROP", "1")
		c20{}.Run(t, sc.SSH, job, res)
		os.Unsetenv("GOKRAZY_RSYNC_PRIVDROP")
		if res.Violation != nil {
			res.Violation.Signature = "ssh-session-not-served:" + res.Violation.Kind + ":" + res.Violation.Signature
			res.Violation.Kind = "interference"
			res.Violation.Detail = fmt.Sprintf("with %d silent peers connected to the SSH listener: %s", nsilent, res.Violation.Detail)
		}
		res.Probe("ssh_runs", 1)
		res.Probe("ssh_silent_peers", nsilent)
		res.Sample = map[string]any{"mode": "ssh", "sessions": len(sc.SSH.Sessions), "silent": nsilent}
	case "multi":
		if sc.Multi == nil || len(sc.Multi.Sessions) == 0 {
			res.Invalid = "no sessions"
			return
		}
		runMulti(t, sc.Multi, lay, res)
	default:
		res.Invalid = "mode"
	}
}

type multiOut struct {
	errs    []error
	outcome kernel.Outcome
	pending string
	stats   kernel.Stats
	shape   uint64
	hash    uint64
	tape    []uint32
	srvLog  string
	timeout bool
	// doneAtStop[i]: session i had returned when the scheduler stopped
	doneAtStop []bool
	unfinished []bool
}

func multiDest(lay Layout, i int) string { return filepath.Join(lay.Root, fmt.Sprintf("pull%d", i)) }

func runMulti(t *testing.T, ms *MultiScenario, lay Layout, res *Result) {
	rw := filepath.Join(lay.Root, "rw")
	setup := func() error {
		fstree.RemoveAll(lay.Src)
		fstree.RemoveAll(rw)
		for i := range ms.Sessions {
			fstree.RemoveAll(multiDest(lay, i))
		}
		if err := fstree.Materialise(lay.Src, &ms.Src); err != nil {
			return err
		}
		return os.MkdirAll(rw, 0755)
	}
	if err := setup(); err != nil {
		res.Invalid = err.Error()
		return
	}
	// solo references: one pull and one push, each alone
	solo := &MultiScenario{Src: ms.Src, Tr: ms.Tr, Free: ms.Free, ClosableFS: ms.ClosableFS, Sessions: []MSess{
		{Kind: "pull", CapCS: kernel.Unbounded, CapSC: kernel.Unbounded, Opts: ms.Sessions[0].Opts},
	}}
	solo.Tr.Tape = nil
	so := execMulti(t, solo, lay, rw)
	if so.errs[0] != nil || so.outcome != kernel.Finished {
		res.Invalid = fmt.Sprintf("solo pull failed: %v %v", so.errs[0], so.outcome)
		return
	}
	soloPull, _ := fstree.Snapshot(multiDest(lay, 0))
	solo.Sessions[0].Kind = "push-distinct"
	so = execMulti(t, solo, lay, rw)
	if so.errs[0] != nil || so.outcome != kernel.Finished {
		res.Invalid = fmt.Sprintf("solo push failed: %v %v", so.errs[0], so.outcome)
		return
	}
	soloPush, _ := fstree.Snapshot(filepath.Join(rw, "t0"))
	if err := setup(); err != nil {
		res.Invalid = err.Error()
		return
	}
	out := execMulti(t, ms, lay, rw)
	res.Sessions += len(ms.Sessions)
	res.Steps += out.stats.Steps
	res.Bytes += out.stats.Bytes
	res.SimTimeMs += out.stats.SimTime.Milliseconds()
	res.Shapes = append(res.Shapes, out.shape)
	res.Hashes = append(res.Hashes, out.hash)
	res.Probe("concurrent_sessions", len(ms.Sessions))
	if ms.Free {
		res.Probe("free_running_runs", 1)
	}
	if out.timeout && ms.TinyFree {
		// sessions that finished in milliseconds when run alone did not finish in
		// 45 s of wall-clock time on small free-running pipes: once more, and if
		// it happens again this is a deadlock the scheduled mode cannot see
		// (goroutines waiting for a lock instead of for the transport)
		if err := setup(); err == nil {
			again := execMulti(t, ms, lay, rw)
			if again.timeout {
				res.Violate("deadlock", "deadlock:free-running", fmt.Sprintf("%d session(s) with options %v on free-running pipes of %d bytes did not finish within 45 s, twice; alone and on large buffers the same sessions take milliseconds\nserver log: %s", len(ms.Sessions), ms.Sessions[0].Opts, ms.Sessions[0].CapSC, tail(again.srvLog, 1200)))
				return
			}
		}
		res.Inconclusive = "free-running run timed out once and finished on the second attempt"
		return
	}
	if out.timeout {
		res.Inconclusive = "free-running multi-session run did not finish within the watchdog"
		return
	}
	fail := func(kind, sig, detail string) {
		res.Violate(kind, sig, detail+"\nserver log: "+tail(out.srvLog, 1500))
		if len(out.tape) > 0 && len(out.tape) <= 300000 {
			ms.Tr.Tape = out.tape
		}
	}
	nstalled := 0
	for _, s := range ms.Sessions {
		if s.StallAt > 0 {
			nstalled++
		}
	}
	if out.outcome == kernel.Frozen && nstalled > 0 {
		// only stalled peers are left: everybody else must have finished
		for i, s := range ms.Sessions {
			if s.StallAt == 0 && !out.doneAtStop[i] {
				fail("interference", "held-up-by-stalled-peer:"+s.Kind, fmt.Sprintf("session %d (%s) cannot finish while %d other clients have stopped reading (they are stalled peers, this one is not): %s", i, s.Kind, nstalled, out.pending))
				return
			}
		}
		res.Probe("runs_with_stalled_peers", 1)
		res.Probe("stalled_peers", nstalled)
	} else if out.outcome == kernel.Frozen {
		res.Inconclusive = "frozen outcome without stalled peers: " + out.pending
		return
	}
	if out.outcome == kernel.Deadlock {
		fail("deadlock", "deadlock:multi", "concurrent sessions stuck: "+out.pending)
		return
	}
	if out.outcome == kernel.StepBudget {
		fail("livelock", "step-budget:multi", out.pending)
		return
	}
	fields := []string{"sum", "perm", "fmtime", "target"}
	nsame := 0
	for i, s := range ms.Sessions {
		if s.StallAt > 0 && (out.doneAtStop == nil || !out.doneAtStop[i]) {
			continue // a stalled peer: outside the guarantee
		}
		if out.errs[i] != nil {
			fail("interference", "session-error:"+s.Kind, fmt.Sprintf("session %d (%s) failed when run concurrently with %d others, although it succeeds alone: %v", i, s.Kind, len(ms.Sessions)-1, out.errs[i]))
			return
		}
		var got fstree.Snap
		want := soloPull
		switch s.Kind {
		case "pull":
			got, _ = fstree.Snapshot(multiDest(lay, i))
		case "push-distinct":
			got, _ = fstree.Snapshot(filepath.Join(rw, fmt.Sprintf("t%d", i)))
			want = soloPush
		case "push-same":
			nsame++
			got, _ = fstree.Snapshot(filepath.Join(rw, "same"))
			want = soloPush
		}
		if d := fstree.Diff(want, got, fields...); len(d) > 0 {
			fail("interference", "result-differs:"+s.Kind, fmt.Sprintf("session %d (%s): result differs from the result of the same session run alone: %s", i, s.Kind, strings.Join(d, "; ")))
			return
		}
	}
	// no temporary files may remain in the shared target
	if nsame > 0 {
		snap, _ := fstree.Snapshot(filepath.Join(rw, "same"))
		for p := range snap {
			if _, ok := soloPush[p]; !ok {
				fail("interference", "leftover:push-same", fmt.Sprintf("unexpected entry %q left in the shared upload target", p))
				return
			}
		}
	}
	res.NonTrivial = len(ms.Sessions) >= 2 && len(ms.Src.Entries) > 0
	res.Sample = map[string]any{"mode": "multi", "free_running": ms.Free, "sessions": ms.Sessions, "src_entries": len(ms.Src.Entries), "steps": out.stats.Steps}
}

func execMulti(t *testing.T, ms *MultiScenario, lay Layout, rw string) (out *multiOut) {
	out = &multiOut{errs: make([]error, len(ms.Sessions))}
	if ms.Free {
		execMultiFree(ms, lay, rw, out)
		return out
	}
	defer func() {
		if r := recover(); r != nil {
			out.outcome = kernel.Deadlock
			out.pending = fmt.Sprintf("bubble panic: %v", r)
		}
	}()
	synctest.Test(t, func(t *testing.T) {
		sim := ms.Tr.NewSim()
		ctx, cancel := context.WithCancel(context.Background())
		defer cancel()
		slog := &lockedBuf{max: 1 << 20}
		srv, err := rsyncd.NewServer([]rsyncd.Module{
			roModule(ms, lay),
			{Name: "rw", Path: rw, Writable: true},
		}, rsyncd.WithStderr(slog), rsyncd.DontRestrict())
		if err != nil {
			out.errs[0] = err
			return
		}
		ln := sim.Listen("10.9.9.9:873")
		go srv.Serve(ctx, ln)
		parties := make([]*kernel.Party, len(ms.Sessions))
		for i, s := range ms.Sessions {
			i, s := i, s
			end := ln.Dial(fmt.Sprintf("192.0.2.%d:%d", 1+i%250, 40000+i), s.CapCS, s.CapSC)
			if s.StallAt > 0 {
				end.RPipe().FreezeReaderAt(s.StallAt)
			}
			fn := multiClientFn(ctx, s, i, lay, end)
			parties[i] = sim.Go(fmt.Sprintf("client%d", i), fn, end)
		}
		out.outcome = sim.Run()
		out.stats, out.shape, out.hash, out.tape = sim.Stats, sim.Shape(), sim.Hash(), sim.Tape().Rec
		if out.outcome != kernel.Finished {
			out.pending = sim.PendingSummary()
		}
		// who had finished when the scheduler stopped (before the shutdown lets
		// everybody fail)?
		out.doneAtStop = make([]bool, len(parties))
		doneErrs := make([]error, len(parties))
		for i, p := range parties {
			out.doneAtStop[i] = p.Done()
			doneErrs[i] = p.Err()
		}
		sim.Shutdown()
		cancel()
		ln.Close()
		synctest.Wait()
		defer func() {
			for i := range parties {
				if out.doneAtStop[i] {
					out.errs[i] = doneErrs[i]
				}
			}
		}()
		for i, p := range parties {
			out.errs[i] = p.Err()
			if !p.Done() {
				out.errs[i] = fmt.Errorf("session did not finish")
			}
		}
		out.unfinished = make([]bool, len(parties))
		for i, p := range parties {
			out.unfinished[i] = !out.doneAtStop[i]
			_ = p
		}
		out.srvLog = slog.String()
	})
	return out
}

type rwc interface {
	Read([]byte) (int, error)
	Write([]byte) (int, error)
}

func multiClientFn(ctx context.Context, s MSess, i int, lay Layout, conn rwc) func() error {
	return func() error {
		cerr := &lockedBuf{max: 1 << 16}
		opts := []rsyncclient.Option{rsyncclient.WithStderr(cerr), rsyncclient.DontRestrict()}
		if s.Kind != "pull" {
			opts = append(opts, rsyncclient.WithSender())
		}
		c, err := rsyncclient.New(s.Opts, opts...)
		if err != nil {
			return err
		}
		switch s.Kind {
		case "pull":
			_, err = c.RunDaemon(ctx, conn, "ro/", []string{multiDest(lay, i)})
		case "push-distinct":
			_, err = c.RunDaemon(ctx, conn, fmt.Sprintf("rw/t%d/", i), []string{lay.Src + "/"})
		case "push-same":
			_, err = c.RunDaemon(ctx, conn, "rw/same/", []string{lay.Src + "/"})
		}
		return err
	}
}

// closableFS is a directory-backed fs.FS with a Close method; once closed it
// has no files any more.
type closableFS struct {
	fs.FS
	closed atomic.Bool
}

func (c *closableFS) Open(name string) (fs.File, error) {
	if c.closed.Load() {
		return nil, &fs.PathError{Op: "open", Path: name, Err: fs.ErrNotExist}
	}
	return c.FS.Open(name)
}

func (c *closableFS) Close() error { c.closed.Store(true); return nil }

func (c *closableFS) ReadLink(name string) (string, error) {
	if c.closed.Load() {
		return "", &fs.PathError{Op: "readlink", Path: name, Err: fs.ErrNotExist}
	}
	return c.FS.(fs.ReadLinkFS).ReadLink(name)
}

func (c *closableFS) Lstat(name string) (fs.FileInfo, error) {
	if c.closed.Load() {
		return nil, &fs.PathError{Op: "lstat", Path: name, Err: fs.ErrNotExist}
	}
	return c.FS.(fs.ReadLinkFS).Lstat(name)
}

func roModule(ms *MultiScenario, lay Layout) rsyncd.Module {
	if ms.ClosableFS {
		return rsyncd.Module{Name: "ro", FS: &closableFS{FS: os.DirFS(lay.Src)}}
	}
	return rsyncd.Module{Name: "ro", Path: lay.Src}
}

// stallingConn stops reading for good after limit bytes (a stalled peer).
type stallingConn struct {
	rwc
	limit int64
	n     int64
	ctx   context.Context
}

func (c *stallingConn) Read(p []byte) (int, error) {
	if c.n >= c.limit {
		<-c.ctx.Done()
		return 0, c.ctx.Err()
	}
	if int64(len(p)) > c.limit-c.n {
		p = p[:c.limit-c.n]
	}
	n, err := c.rwc.Read(p)
	c.n += int64(n)
	return n, err
}

func execMultiFree(ms *MultiScenario, lay Layout, rw string, out *multiOut) {
	ctx, cancel := context.WithCancel(context.Background())
	defer cancel()
	slog := &lockedBuf{max: 1 << 20}
	srv, err := rsyncd.NewServer([]rsyncd.Module{
		roModule(ms, lay),
		{Name: "rw", Path: rw, Writable: true},
	}, rsyncd.WithStderr(slog), rsyncd.DontRestrict())
	if err != nil {
		out.errs[0] = err
		return
	}
	ms.Tr.ApplyKnobs()
	ln := kernel.NewFreeListener()
	go srv.Serve(ctx, ln)
	var wg sync.WaitGroup
	var mu sync.Mutex
	stopped := false
	nstalled := 0
	out.doneAtStop = make([]bool, len(ms.Sessions))
	for i, s := range ms.Sessions {
		i, s := i, s
		capacity := s.CapSC
		if capacity <= 0 {
			capacity = 1 << 16
		}
		conn := ln.Dial(capacity, fmt.Sprintf("192.0.2.%d:%d", 1+i%250, 40000+i))
		var rw rwc = conn
		if s.StallAt > 0 {
			nstalled++
			rw = &stallingConn{rwc: conn, limit: s.StallAt, ctx: ctx}
		}
		fn := multiClientFn(ctx, s, i, lay, rw)
		if s.StallAt == 0 {
			wg.Add(1)
		}
		go func() {
			err := fn()
			mu.Lock()
			if !stopped {
				out.errs[i] = err
				out.doneAtStop[i] = true
			}
			mu.Unlock()
			conn.Close()
			if s.StallAt == 0 {
				wg.Done()
			}
		}()
	}
	done := make(chan struct{})
	go func() { wg.Wait(); close(done) }()
	limit := 90 * time.Second
	if nstalled > 0 {
		limit = 60 * time.Second
	}
	if ms.TinyFree {
		limit = 45 * time.Second
	}
	select {
	case <-done:
		out.outcome = kernel.Finished
		if nstalled > 0 {
			out.outcome = kernel.Frozen // only stalled peers are left
		}
	case <-time.After(limit):
		if nstalled > 0 {
			out.outcome = kernel.Frozen
			out.pending = fmt.Sprintf("free-running run: sessions that are not stalled did not finish within %v of wall-clock time", limit)
		} else {
			out.timeout = true
		}
	}
	mu.Lock()
	stopped = true
	mu.Unlock()
	cancel()
	ln.Close()
	out.srvLog = slog.String()
}
