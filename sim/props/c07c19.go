package props

import (
	"context"
	"fmt"
	"net/netip"
	"os"
	"path/filepath"
	"strings"
	"testing"

	"github.com/gokrazy/rsync/rsyncclient"
	"github.com/gokrazy/rsync/rsyncd"

	"verif/sim/fstree"
	"verif/sim/kernel"
	"verif/sim/refproto"
)

// ---- C07: read-only modules are never modified --------------------------------------

type C07Scenario struct {
	Target   string      `json:"target"`    // module/path the client uploads to
	Flags    []string    `json:"flags"`     // client flags (real client) / argument lines (hostile client)
	Hostile  bool        `json:"hostile"`   // reference sender with hand-written argument lines instead of the real client
	ViaServe bool        `json:"via_serve"` // TCP accept loop (Serve) vs stdin/stdout style HandleDaemonConn
	Src      fstree.Tree `json:"src"`       // what the client tries to upload
	Mod      fstree.Tree `json:"mod"`       // content of the read-only module
	FSModule bool        `json:"fs_module"` // the read-only module under attack is fs.FS-backed
	// ConnArgs: the embedding program hands the session to
	// Server.HandleConnArgs with the read-only module (command mode on a
	// module, public API) instead of the daemon protocol; real client only.
	ConnArgs bool `json:"conn_args,omitempty"`
	// Pull: the client only DOWNLOADS (or lists) Target, which may name paths
	// that do not exist; reading must not change the module either.
	Pull bool `json:"pull,omitempty"`
	// Restricted: the server is created without rsyncd.DontRestrict(), as a
	// program embedding it normally would; the harness has made landlock a
	// no-op, which is what a kernel without landlock amounts to (BestEffort).
	Restricted bool `json:"restricted,omitempty"`
	// Door: the WRITABLE module contains a symlink "door" that points at the
	// read-only module's directory (as an earlier, legitimate upload of a
	// symlink would leave it) and the client uploads to rw/door/...: whatever
	// happens to the upload, the read-only module must not change.
	Door bool      `json:"door,omitempty"`
	Tr   Transport `json:"tr"`
}

// restrictedServers counts landlock layers this worker process has stacked
// (each restricted server adds one, the kernel allows 16): the worker asks to
// be recycled in time.
var restrictedServers int

type c07 struct{}

func init() { Register("C07", c07{}) }

func (c07) NewScenario() any { return &C07Scenario{} }

func (c07) Generate(seed uint64, tier string, index int) any {
	g := NewGen(kernel.Derive(seed, "workload"), tier == "thorough")
	sc := &C07Scenario{Hostile: g.R.Intn(2) == 0, ViaServe: g.R.Bool(), FSModule: g.R.Intn(3) == 0}
	to := TreeOpts{MaxEntries: 6, ByteBudget: 16 << 10, PlainNames: true, Symlinks: true}
	sc.Src = g.Tree(to)
	sc.Mod = g.Tree(to)
	mod := "ro"
	if sc.FSModule {
		mod = "rofs"
	}
	sub := []string{"", "/", "/sub", "/sub/", "/a/b/c/", "/../rw/", "/."}[g.R.Intn(7)]
	if len(sc.Mod.Entries) > 0 && g.R.Intn(3) == 0 {
		sub = "/" + string(sc.Mod.Entries[0].Path)
	}
	sc.Target = mod + sub
	flags := []string{"-r"}
	for _, f := range []string{"-t", "-p", "-l", "-D", "-o", "-g", "-c", "-I", "-n", "--delete", "-a"} {
		if g.R.Intn(4) == 0 {
			flags = append(flags, f)
		}
	}
	if sc.Hostile {
		// argument lines as a hostile client would send them: receive mode
		// means no --sender; vary order and spelling
		args := []string{"--server"}
		if g.R.Intn(4) == 0 {
			// verbosity and debug levels the daemon's own client never sends
			args = append(args, []string{"-vvv", "-vvvv", "-vv", "--debug=GENR", "--debug=ALL", "--info=ALL", "--debug=RECV,DEL", "-vvvvvv"}[g.R.Intn(8)])
		}
		switch g.R.Intn(4) {
		case 0:
			args = append(args, "-vlogDtpr")
		case 1:
			args = append(args, "-r", "--delete")
		case 2:
			args = append(args, "-n", "-r")
		default:
			args = append(args, flags...)
		}
		args = append(args, ".", sc.Target)
		sc.Flags = args
	} else {
		sc.Flags = flags
	}
	if !sc.Hostile && !sc.FSModule && g.R.Intn(3) == 0 {
		sc.ConnArgs = true
	}
	if g.R.Intn(6) == 0 {
		// a download or listing request, also for paths that do not exist
		sc.Pull, sc.Hostile, sc.ConnArgs = true, true, false
		args := []string{"--server", "--sender"}
		args = append(args, flags...)
		if g.R.Intn(4) == 0 {
			// sender-side options that would modify the source
			args = append(args, []string{"--remove-source-files", "--remove-sent-files"}[g.R.Intn(2)])
		}
		sc.Flags = append(args, ".", sc.Target)
	} else if !sc.FSModule && g.R.Intn(8) == 0 {
		// second step of a two-step attack through the writable module
		sc.Door, sc.ConnArgs = true, false
		old := sc.Target
		sc.Target = []string{"rw", "r"}[g.R.Intn(2)] + []string{"/door/", "/door", "/door/.", "/door/sub/", "/./door/"}[g.R.Intn(5)]
		if sc.Hostile {
			for i, a := range sc.Flags {
				if a == old {
					sc.Flags[i] = sc.Target
				}
			}
		}
	}
	sc.Restricted = g.R.Intn(12) == 0
	sc.Tr = g.TransportFor(12, 64<<10)
	// the refusal (a short error message) must fit into the server→client
	// buffer while the client is still writing, as on any real socket
	if sc.Tr.CapSC != kernel.Unbounded && sc.Tr.CapSC < 4096 {
		sc.Tr.CapSC = 4096
	}
	return sc
}

func (c07) Run(t *testing.T, scenario any, job *Job, res *Result) {
	sc := scenario.(*C07Scenario)
	if sc.Tr.CapSC != kernel.Unbounded && sc.Tr.CapSC < 4096 {
		res.Invalid = "server→client capacity below 4 KiB: a refusal message would not fit"
		return
	}
	lay := NewLayout(job.Scratch)
	roDir := filepath.Join(lay.Root, "ro")
	rwDir := filepath.Join(lay.Root, "rw")
	ro2 := filepath.Join(lay.Root, "ro2")
	if err := fstree.Materialise(roDir, &sc.Mod); err != nil {
		res.Invalid = err.Error()
		return
	}
	fstree.Materialise(ro2, &sc.Mod)
	os.MkdirAll(rwDir, 0755)
	if err := fstree.Materialise(lay.Src, &sc.Src); err != nil {
		res.Invalid = err.Error()
		return
	}
	// the attacked module must be one of the read-only ones
	modName := sc.Target
	if i := strings.IndexByte(modName, '/'); i >= 0 {
		modName = modName[:i]
	}
	if sc.Door {
		if (modName != "rw" && modName != "r") || !strings.Contains(sc.Target, "door") {
			res.Invalid = "door scenarios upload to rw/door..."
			return
		}
		if err := os.Symlink(roDir, filepath.Join(rwDir, "door")); err != nil {
			res.Invalid = err.Error()
			return
		}
	} else if modName != "ro" && modName != "rofs" {
		res.Invalid = "target must be a read-only module"
		return
	}
	slog := &lockedBuf{max: 1 << 18}
	sopts := []rsyncd.Option{rsyncd.WithStderr(slog)}
	if sc.Restricted && hooksEnabled {
		relaxLandlock()
		restrictedServers++
		if restrictedServers >= 10 {
			res.Recycle = true
		}
	} else {
		sopts = append(sopts, rsyncd.DontRestrict())
	}
	srv, err := rsyncd.NewServer([]rsyncd.Module{
		{Name: "rw", Path: rwDir, Writable: true},
		{Name: "ro", Path: roDir},
		// an fs.FS that is itself confined to the directory: os.DirFS follows
		// symlinks anywhere, and a module tree with a link to "/" then makes a
		// recursive download walk (and checksum) the whole machine
		{Name: "rofs", FS: mustRootFS(ro2)},
		{Name: "r", Path: rwDir, Writable: true}, // a writable module whose name is a prefix of the read-only ones
	}, sopts...)
	if err != nil {
		res.Inconclusive = err.Error()
		return
	}
	before1, _ := fstree.Snapshot(roDir)
	before2, _ := fstree.Snapshot(ro2)
	fields := []string{"sum", "perm", "mtime", "mtime_ns", "target", "uid", "gid"}
	checkUnchanged := func() error {
		a1, _ := fstree.Snapshot(roDir)
		if d := fstree.Diff(before1, a1, fields...); len(d) > 0 {
			return fmt.Errorf("module ro changed: %v", d)
		}
		a2, _ := fstree.Snapshot(ro2)
		if d := fstree.Diff(before2, a2, fields...); len(d) > 0 {
			return fmt.Errorf("module rofs changed: %v", d)
		}
		return nil
	}
	rr := &RefRun{Tr: sc.Tr, RefIsClient: true, OnStep: func(step int) error {
		if step%4 != 0 {
			return nil
		}
		return checkUnchanged()
	}}
	if sc.ViaServe {
		rr.Serve = srv
	} else {
		rr.Real = func(ctx context.Context, end *kernel.End) error {
			return srv.HandleDaemonConn(ctx, rsyncd.NewConnection(end, end, "192.0.2.33:5555"))
		}
	}
	var status string
	var refErr error
	var sawError bool
	if sc.Pull {
		lo, _, _, _, _ := refproto.ArgOpts(sc.Flags)
		rr.Ref = func(w *refproto.Wire) error {
			refproto.Pull(w, refproto.PullOpts{Daemon: true, Module: modName, Args: sc.Flags, List: lo, ServerIsSender: true, MaxData: 1 << 20,
				Plan: func(int, *refproto.Entry, int32) (bool, []byte, int, int) { return true, nil, 0, 0 }})
			return nil
		}
		out := RunWithRef(t, rr)
		res.AddRef(out)
		if out.HookErr != nil {
			res.Violate("readonly-module-modified", "modified:pull", fmt.Sprintf("download request args=%v: %v", sc.Flags, out.HookErr))
			return
		}
		if err := checkUnchanged(); err != nil {
			res.Violate("readonly-module-modified", "modified:pull", fmt.Sprintf("download request args=%v: %v", sc.Flags, err))
			return
		}
		res.Probe("download_requests", 1)
		res.NonTrivial = true
		res.Sample = map[string]any{"pull": true, "args": sc.Flags, "restricted": sc.Restricted}
		return
	}
	if sc.Hostile {
		var data = map[string][]byte{}
		entries := []refproto.Entry{{Name: ".", Mode: refproto.SIFDIR | 0755, Mtime: 1500000000, Size: 4096, Flags: refproto.XTopDir}}
		for _, e := range sc.Src.Entries {
			if e.Type == "f" && !strings.Contains(string(e.Path), "/") {
				b := e.Content.Bytes()
				data[string(e.Path)] = b
				entries = append(entries, refproto.Entry{Name: string(e.Path), Mode: refproto.SIFREG | 0644, Mtime: 1500000000, Size: int64(len(b))})
			}
		}
		entries = append(entries, refproto.Entry{Name: "planted", Mode: refproto.SIFREG | 0644, Mtime: 1500000000, Size: 7})
		data["planted"] = []byte("planted")
		lo, _, dry, del, _ := refproto.ArgOpts(sc.Flags)
		rr.Ref = func(w *refproto.Wire) error {
			sr, err := refproto.Send(w, refproto.SendOpts{Daemon: true, Module: modName, Args: sc.Flags, List: lo, DryRun: dry, SendFilterList: del, Entries: entries, Data: data})
			if sr != nil {
				status = sr.Status
			}
			if w.Demux() != nil && w.Demux().ErrMsg != "" {
				sawError = true
			}
			refErr = err
			return nil
		}
	} else {
		cerr := &lockedBuf{max: 1 << 16}
		client, err := rsyncclient.New(sc.Flags, rsyncclient.WithSender(), rsyncclient.WithStderr(cerr), rsyncclient.DontRestrict())
		if err != nil {
			res.Invalid = err.Error()
			return
		}
		// the real client occupies the "ref" slot (it is the party that dials)
		out := runRealClientAgainst(t, sc, srv, client, lay, checkUnchanged)
		res.AddRef(out)
		if out.HookErr != nil {
			res.Violate("readonly-module-modified", "modified:real-client", fmt.Sprintf("flags=%v target=%q: %v", sc.Flags, sc.Target, out.HookErr))
			return
		}
		if err := checkUnchanged(); err != nil {
			res.Violate("readonly-module-modified", "modified:real-client", fmt.Sprintf("flags=%v target=%q: %v", sc.Flags, sc.Target, err))
			return
		}
		if out.Outcome == kernel.Deadlock {
			res.Violate("deadlock", "refusal-hang:real-client", out.Pending)
			return
		}
		if sc.Door {
			res.Probe("door_uploads", 1)
			res.NonTrivial = true
			return
		}
		if out.RefErr == nil {
			res.Violate("upload-not-refused", "not-refused:real-client", fmt.Sprintf("flags=%v target=%q: the client's upload into a read-only module returned success\nserver log: %s", sc.Flags, sc.Target, tail(slog.String(), 800)))
			return
		}
		res.Probe("refusals_real_client", 1)
		res.NonTrivial = true
		if sc.ConnArgs {
			res.Probe("refusals_conn_args", 1)
		}
		res.Sample = map[string]any{"hostile": false, "conn_args": sc.ConnArgs, "flags": sc.Flags, "target": sc.Target, "via_serve": sc.ViaServe, "client_error": out.RefErr.Error()}
		return
	}
	out := RunWithRef(t, rr)
	res.AddRef(out)
	if out.HookErr != nil {
		res.Violate("readonly-module-modified", "modified:hostile", fmt.Sprintf("args=%v: %v", sc.Flags, out.HookErr))
		return
	}
	if err := checkUnchanged(); err != nil {
		res.Violate("readonly-module-modified", "modified:hostile", fmt.Sprintf("args=%v: %v", sc.Flags, err))
		return
	}
	if out.Outcome == kernel.Deadlock {
		res.Violate("deadlock", "refusal-hang:hostile", out.Pending)
		return
	}
	if sc.Door {
		res.Probe("door_uploads", 1)
		res.NonTrivial = true
		return
	}
	refused := strings.HasPrefix(status, "@ERROR") || sawError || refErr != nil
	if !refused {
		res.Violate("upload-not-refused", "not-refused:hostile", fmt.Sprintf("args=%v: upload session into a read-only module completed without an error (status %q)\nserver log: %s", sc.Flags, status, tail(slog.String(), 800)))
		return
	}
	res.Probe("refusals_hostile", 1)
	res.NonTrivial = true
	res.Sample = map[string]any{"hostile": true, "args": sc.Flags, "via_serve": sc.ViaServe, "status": status, "error_frame": sawError, "ref_error": ErrString(refErr)}
}

// runRealClientAgainst runs a real pushing client against the real daemon.
// The client occupies the "ref" slot of RefRun (RefErr = client error).
func runRealClientAgainst(t *testing.T, sc *C07Scenario, srv *rsyncd.Server, client *rsyncclient.Client, lay Layout, check func() error) *RefResult {
	rr := &RefRun{Tr: sc.Tr, RefIsClient: true, OnStep: func(step int) error {
		if step%4 != 0 {
			return nil
		}
		return check()
	}}
	if sc.ViaServe {
		rr.Serve = srv
	} else {
		rr.Real = func(ctx context.Context, end *kernel.End) error {
			return srv.HandleDaemonConn(ctx, rsyncd.NewConnection(end, end, "192.0.2.33:5555"))
		}
	}
	rr.RawRef = func(ctx context.Context, end *kernel.End) error {
		_, err := client.RunDaemon(ctx, end, sc.Target, []string{lay.Src + "/"})
		return err
	}
	if sc.ConnArgs {
		sub := "/"
		if i := strings.IndexByte(sc.Target, '/'); i >= 0 && i+1 < len(sc.Target) {
			sub = sc.Target[i:]
		}
		args := client.ServerCommandOptions(sub)
		mod := &rsyncd.Module{Name: "ro", Path: filepath.Join(lay.Root, "ro")}
		rr.Serve = nil
		rr.Real = func(ctx context.Context, end *kernel.End) error {
			return srv.HandleConnArgs(ctx, rsyncd.NewConnection(end, end, "embedded"), mod, args)
		}
		rr.RawRef = func(ctx context.Context, end *kernel.End) error {
			_, err := client.Run(ctx, end, []string{lay.Src + "/"})
			return err
		}
	}
	return RunWithRef(t, rr)
}

// ---- C19: module access control ------------------------------------------------------

type C19Scenario struct {
	Rules []string `json:"rules"`
	// Rules2 guard a second module of the same daemon; every address asks for
	// both modules (in the order Order decides) so that a verdict for one
	// module cannot leak into the other.
	Rules2 []string `json:"rules2,omitempty"`
	Order  uint64   `json:"order,omitempty"`
	// Persist: bit i set = the client with address i ignores an @ERROR line and
	// carries on with the protocol (argument lines, empty filter list) as if it
	// had been admitted; it must still receive nothing.
	Persist uint64    `json:"persist,omitempty"`
	Addrs   []string  `json:"addrs"`
	Tr      Transport `json:"tr"`
}

type c19 struct{}

func init() { Register("C19", c19{}) }

func (c19) NewScenario() any { return &C19Scenario{} }

var c19RulePool = []string{
	"allow all", "deny all",
	"allow 0.0.0.0/0", "deny 0.0.0.0/0", "allow ::/0", "deny ::/0",
	"allow 10.0.0.0/8", "deny 10.0.0.0/8", "allow 10.1.2.0/24", "deny 10.1.2.0/24", "allow 10.1.2.3/32", "deny 10.1.2.3/32",
	"allow 192.168.0.0/24", "deny 192.168.0.0/24",
	"allow 2001:db8::/32", "deny 2001:db8::/32", "allow 2001:db8::1/128", "deny 2001:db8::1/128",
	"allow ::ffff:10.1.2.0/120", "deny ::ffff:10.0.0.0/104",
	"permit 10.0.0.0/8", "Deny 192.168.0.0/24", "reject 2001:db8::/32",
	"allow", "permit all", "deny 10.1.2.3", "allow 10.0.0.0/33", "deny  all", "allow all ", "ALLOW all", "deny 300.1.1.1/8", "",
}

var c19AddrPool = []string{
	"10.1.2.3", "10.1.2.4", "10.1.2.255", "10.1.3.0", "10.1.1.255", "10.255.255.255", "11.0.0.0", "9.255.255.255", "10.0.0.0",
	"192.168.0.1", "192.168.1.0", "192.167.255.255", "0.0.0.0", "255.255.255.255", "127.0.0.1",
	"2001:db8::1", "2001:db8::2", "2001:db8:ffff:ffff:ffff:ffff:ffff:ffff", "2001:db9::", "2001:db7:ffff::1", "::1", "::",
	"::ffff:10.1.2.3", "::ffff:10.1.2.4", "::ffff:11.0.0.1", "::ffff:192.168.0.7",
}

func c19PoolTotal() int {
	n := len(c19RulePool)
	return 1 + n + n*n + n*n*n
}

func (c19) Generate(seed uint64, tier string, index int) any {
	g := NewGen(kernel.Derive(seed, "workload"), tier == "thorough")
	sc := &C19Scenario{}
	n := len(c19RulePool)
	if tier == "thorough" && index < c19PoolTotal() {
		// enumerate the pool product: index → rule list of length 0..3
		i := index
		switch {
		case i == 0:
		case i < 1+n:
			sc.Rules = []string{c19RulePool[i-1]}
		case i < 1+n+n*n:
			j := i - 1 - n
			sc.Rules = []string{c19RulePool[j/n], c19RulePool[j%n]}
		default:
			j := i - 1 - n - n*n
			sc.Rules = []string{c19RulePool[j/(n*n)], c19RulePool[(j/n)%n], c19RulePool[j%n]}
		}
		sc.Addrs = append([]string(nil), c19AddrPool...)
	} else {
		l := g.R.Intn(4)
		for i := 0; i < l; i++ {
			sc.Rules = append(sc.Rules, c19RulePool[g.R.Intn(n)])
		}
		for i := 0; i < g.R.Intn(3); i++ {
			sc.Rules2 = append(sc.Rules2, c19RulePool[g.R.Intn(n)])
		}
		sc.Order = g.R.Uint64() >> 1
		k := 6
		for i := 0; i < k; i++ {
			sc.Addrs = append(sc.Addrs, c19AddrPool[g.R.Intn(len(c19AddrPool))])
		}
	}
	sc.Tr = Transport{CapCS: kernel.Unbounded, CapSC: kernel.Unbounded, Chunk: g.R.Intn(4), Bias: g.R.Intn(2), SchedSeed: g.R.Uint64() >> 1}
	sc.Persist = kernel.Derive(sc.Tr.SchedSeed, "persist") // (the enumeration keeps its rule lists; persistence varies with the seed)
	return sc
}

// aclModel is the independent first-match model (net/netip, not net.ParseCIDR).
// It returns allow, or deny with reason "deny" / "malformed".
func aclModel(rules []string, addr netip.Addr) (allow bool, why string) {
	for _, r := range rules {
		i := strings.Index(r, " ")
		if i < 0 {
			return false, "malformed"
		}
		action, who := r[:i], r[i+1:]
		if action != "allow" && action != "deny" {
			return false, "malformed"
		}
		if who != "all" {
			pfx, err := netip.ParsePrefix(who)
			if err != nil {
				return false, "malformed"
			}
			// IPv4-mapped IPv6 addresses and prefixes denote IPv4 (a dual-stack
			// socket reports an IPv4 peer that way)
			a := addr.Unmap()
			p := pfx
			if p.Addr().Is4In6() {
				bits := p.Bits() - 96
				if bits < 0 {
					bits = 0
				}
				p = netip.PrefixFrom(p.Addr().Unmap(), bits)
			}
			if a.Is4() != p.Addr().Is4() || !p.Masked().Contains(a) {
				continue
			}
		}
		if action == "allow" {
			return true, ""
		}
		return false, "deny"
	}
	return true, ""
}

func (c19) Run(t *testing.T, scenario any, job *Job, res *Result) {
	sc := scenario.(*C19Scenario)
	lay := NewLayout(job.Scratch)
	os.MkdirAll(lay.Src, 0755)
	os.WriteFile(filepath.Join(lay.Src, "module-data-canary.txt"), []byte("MODULE-DATA-CANARY-0123456789"), 0644)
	if len(sc.Addrs) == 0 {
		res.Invalid = "no addresses"
		return
	}
	slog := &lockedBuf{max: 1 << 16}
	srv, err := rsyncd.NewServer([]rsyncd.Module{{Name: "guarded", Path: lay.Src, ACL: sc.Rules}, {Name: "other", Path: lay.Src, ACL: sc.Rules2}}, rsyncd.WithStderr(slog), rsyncd.DontRestrict())
	if err != nil {
		res.Inconclusive = err.Error()
		return
	}
	nallow, ndeny, nmal := 0, 0, 0
	for ai, as := range sc.Addrs {
		addr, err := netip.ParseAddr(as)
		if err != nil {
			res.Invalid = "address " + as
			return
		}
		mods := []string{"guarded", "other"}
		if (sc.Order>>uint(ai%60))&1 == 1 {
			mods = []string{"other", "guarded"}
		}
		for _, modName := range mods {
			rules := sc.Rules
			if modName == "other" {
				rules = sc.Rules2
			}
			wantAllow, why := aclModel(rules, addr)
			remote := netip.AddrPortFrom(addr, 40000).String()
			var status string
			var after []byte
			var pr *refproto.PullResult
			out := RunWithRef(t, &RefRun{Tr: sc.Tr, Serve: srv, RemoteAddr: remote,
				Ref: func(w *refproto.Wire) error {
					var err error
					pr, err = refproto.Pull(w, refproto.PullOpts{Daemon: true, Module: modName, Args: []string{"--server", "--sender", "-r", ".", modName + "/"}, ServerIsSender: true,
						Plan: func(int, *refproto.Entry, int32) (bool, []byte, int, int) { return true, nil, 0, 0 }})
					if pr != nil {
						status = pr.Status
					}
					if pr != nil && pr.Stage == "refused" {
						if (sc.Persist>>uint(ai%60))&1 == 1 {
							// a client that ignores the refusal and carries on regardless
							for _, a := range []string{"--server", "--sender", "-r", ".", modName + "/"} {
								w.PutString("persist.arg", a+"\n")
							}
							w.PutString("persist.argend", "\n")
							w.PutInt32("persist.filterend", 0)
							w.Flush()
						}
						// after the error line the server must send nothing more: read until EOF
						for {
							b, rerr := w.GetBytes(1)
							if rerr != nil {
								break
							}
							after = append(after, b...)
							if len(after) > 4096 {
								break
							}
						}
						return nil
					}
					return err
				}})
			res.AddRef(out)
			desc := fmt.Sprintf("module=%s rules=%q (other module of the same daemon asked in order %v) address=%s", modName, rules, mods, as)
			if out.Outcome == kernel.Deadlock {
				res.Violate("deadlock", "acl-hang", desc+": "+out.Pending)
				return
			}
			granted := status == "@RSYNCD: OK"
			if granted != wantAllow {
				sig := "granted-but-model-denies"
				if !granted {
					sig = "denied-but-model-allows"
				}
				res.Violate("acl-decision", sig+":"+why, fmt.Sprintf("%s: daemon answered %q, first-match model says allow=%v (%s)", desc, status, wantAllow, why))
				return
			}
			if granted {
				nallow++
				if out.RefErr != nil || pr.Stage != "done" {
					res.Violate("acl-decision", "granted-session-broken", fmt.Sprintf("%s: access granted but the session failed at stage %s: %v", desc, pr.Stage, out.RefErr))
					return
				}
			} else {
				if why == "malformed" {
					nmal++
				} else {
					ndeny++
				}
				if !strings.HasPrefix(status, "@ERROR") {
					res.Violate("acl-decision", "no-error-line", fmt.Sprintf("%s: access must be refused with an @ERROR line, got %q", desc, status))
					return
				}
				if len(after) > 0 {
					res.Violate("acl-leak", "data-after-error", fmt.Sprintf("%s: %d bytes followed the @ERROR line: %q", desc, len(after), after))
					return
				}
			}
		}
	}
	res.Probe("allowed", nallow)
	res.Probe("denied", ndeny)
	res.Probe("malformed_rule_reached", nmal)
	res.Probe("enum_cases", 1)
	res.NonTrivial = len(sc.Rules) > 0
	res.Sample = map[string]any{"rules": sc.Rules, "addresses": len(sc.Addrs), "allowed": nallow, "denied": ndeny, "malformed": nmal}
}
