//go:build !verif

package props

import "net"

func pinSeed(seed int32)                                 {}
func setListeners(f func([]net.Listener) []net.Listener) {}
func setReadWindow(n int)                                {}
func setMinBlock(n int)                                  {}
func relaxLandlock()                                     {}

const hooksEnabled = false
