package props

import (
	"fmt"
	"os"
	"path"
	"path/filepath"
	"sort"
	"strings"
	"testing"

	"verif/sim/fstree"
	"verif/sim/kernel"
	"verif/sim/model"
	"verif/sim/refproto"
)

// listOptsFor maps model options to the optional file-list fields.
func listOptsFor(o model.Opts) refproto.ListOpts {
	return refproto.ListOpts{UID: o.Owner, GID: o.Group, Devices: o.Devices, Specials: o.Specials, Links: o.Links, Checksum: o.Checksum}
}

// parseSenderSide decodes the sending side's stream of a tapped session.
func parseSenderSide(sc *SyncScenario, s *SessionResult) (*refproto.ParsedSender, error) {
	o := model.ParseOpts(sc.Opts)
	lo := listOptsFor(o)
	switch sc.Arr {
	case "A1":
		return refproto.ParseSenderStream(s.WireSC, refproto.SenderStreamOpts{ServerLines: true, Seed: true, Mux: true, DryRun: o.DryRun, Stats: true}, lo)
	case "A3p":
		return refproto.ParseSenderStream(s.WireSC, refproto.SenderStreamOpts{Negotiate: true, Seed: true, Mux: true, DryRun: o.DryRun, Stats: true}, lo)
	case "A2":
		return refproto.ParseSenderStream(s.WireCS, refproto.SenderStreamOpts{ClientLines: true, FilterFirst: o.Delete, DryRun: o.DryRun}, lo)
	case "A3s":
		return refproto.ParseSenderStream(s.WireCS, refproto.SenderStreamOpts{Negotiate: true, FilterFirst: o.Delete, DryRun: o.DryRun}, lo)
	}
	return nil, fmt.Errorf("no tap for arrangement %s", sc.Arr)
}

// expectedEntrySet computes the names (and types) the destination must hold
// after a successful sync, from the property statements: created entries,
// untouched other entries, --delete semantics.
func expectedEntrySet(before fstree.Snap, listed []model.Listed, o model.Opts) map[string]string {
	exp := map[string]string{}
	for p, n := range before {
		exp[p] = n.Type
	}
	if o.DryRun {
		return exp
	}
	inList := map[string]bool{}
	hasTop := false
	for _, l := range listed {
		inList[l.Name] = true
		if l.TopDir {
			hasTop = true
		}
	}
	if o.Delete && o.Recursive && hasTop {
		protected := func(p string) bool {
			for q := p; q != "." && q != "/"; q = path.Dir(q) {
				if model.Excluded(o.Rules, q) {
					return true
				}
			}
			return false
		}
		var names []string
		for p := range before {
			names = append(names, p)
		}
		sort.Strings(names)
		for _, p := range names {
			if p == "." || inList[p] || protected(p) {
				continue
			}
			keep := false
			if before[p].Type == "d" {
				for _, q := range names {
					if strings.HasPrefix(q, p+"/") && (protected(q) || inList[q]) {
						keep = true
						break
					}
				}
			}
			if !keep {
				delete(exp, p)
			}
		}
	}
	for _, l := range listed {
		if !model.WouldCreate(l.Node, o) {
			continue
		}
		// anything below a replaced non-directory parent disappears with it
		exp[l.Name] = l.Node.Type
		for d := path.Dir(l.Name); d != "." && d != "/"; d = path.Dir(d) {
			exp[d] = "d"
		}
	}
	exp["."] = "d"
	return exp
}

func diffEntrySet(exp map[string]string, after fstree.Snap) []string {
	var out []string
	for p, t := range exp {
		a, ok := after[p]
		if !ok {
			out = append(out, fmt.Sprintf("missing %q (%s)", p, t))
		} else if a.Type != t {
			out = append(out, fmt.Sprintf("%q is %s, expected %s", p, a.Type, t))
		}
	}
	for p, a := range after {
		if _, ok := exp[p]; !ok {
			out = append(out, fmt.Sprintf("unexpected %q (%s)", p, a.Type))
		}
	}
	sort.Strings(out)
	return out
}

// ---- C13: filter rules -------------------------------------------------------------

type C13Scenario struct {
	Sync SyncScenario `json:"sync"`
	// Unsupported marks scenarios whose rules use syntax beyond plain names:
	// the oracle is then "error, or rsync's selection".
	Unsupported bool `json:"unsupported,omitempty"`
}

type c13 struct{}

func init() { Register("C13", c13{}) }

func (c13) NewScenario() any { return &C13Scenario{} }

func (c13) Generate(seed uint64, tier string, index int) any {
	g := NewGen(kernel.Derive(seed, "workload"), tier == "thorough")
	arr := []string{"A1", "A2", "A4", "A3p", "A3s"}[g.R.Intn(5)]
	to := TreeOpts{MaxEntries: 14, ByteBudget: 8 << 10, PlainNames: true, Symlinks: true, FixedPerms: true, MaxDepth: 3}
	sc := genSync(g, arr, []string{"-rlt"}, to, false)
	sc.ModuleFS = false
	sc.Sources = []SrcArg{{Path: "", Slash: true}}
	sc.Dst = fstree.Tree{}
	out := &C13Scenario{}
	// a third of the runs transfer the contents of a sub-directory: rule names
	// are relative to the transfer root, not to the module or source root
	prefix := ""
	if g.R.Intn(3) == 0 {
		for _, e := range sc.Src.Entries {
			if e.Type == "d" && !strings.Contains(string(e.Path), "/") {
				prefix = string(e.Path) + "/"
				sc.Sources = []SrcArg{{Path: e.Path, Slash: true}}
				break
			}
		}
	}
	// rules naming entries in every position, plus some names that match nothing
	var names []string
	isDirOnly := map[string]bool{}
	for _, e := range sc.Src.Entries {
		b := path.Base(string(e.Path))
		names = append(names, b)
		if _, seen := isDirOnly[b]; !seen {
			isDirOnly[b] = true
		}
		if e.Type != "d" {
			isDirOnly[b] = false
		}
	}
	// rules with a slash name one path below the transfer root; only paths that
	// no other entry has as a tail are used, where rsync's tail matching and
	// an exact comparison agree
	for _, e := range sc.Src.Entries {
		p := string(e.Path)
		if !strings.HasPrefix(p, prefix) {
			continue
		}
		rel := strings.TrimPrefix(p, prefix)
		if !strings.Contains(rel, "/") {
			continue
		}
		unique := true
		for _, o := range sc.Src.Entries {
			if q := strings.TrimPrefix(string(o.Path), prefix); q != rel && strings.HasSuffix(q, "/"+rel) {
				unique = false
			}
		}
		if unique {
			names = append(names, rel, rel)
		}
	}
	var dirOnly []string
	for b, d := range isDirOnly {
		if d {
			dirOnly = append(dirOnly, b)
		}
	}
	sort.Strings(dirOnly) // (map order must not decide which name gets which draw)
	for _, b := range dirOnly {
		if g.R.Intn(2) == 0 {
			names = append(names, b+"/") // directory-only rule for a name only directories bear
		}
	}
	sort.Strings(names)
	names = append(names, "nomatch")
	nrules := g.R.Intn(5)
	for i := 0; i < nrules; i++ {
		n := names[g.R.Intn(len(names))]
		include := g.R.Intn(3) == 0
		if g.R.Intn(12) == 0 {
			out.Unsupported = true
			switch g.R.Intn(3) {
			case 0:
				n = n[:len(n)/2] + "*"
			case 1:
				n = "?" + n[1:]
			default:
				n = "[" + n[:1] + "]" + n[1:]
			}
		}
		switch g.R.Intn(3) {
		case 0:
			if include {
				sc.Opts = append(sc.Opts, "--include="+n)
			} else {
				sc.Opts = append(sc.Opts, "--exclude="+n)
			}
		case 1:
			if include {
				sc.Opts = append(sc.Opts, "--include", n)
			} else {
				sc.Opts = append(sc.Opts, "--exclude", n)
			}
		default:
			if include {
				sc.Opts = append(sc.Opts, "-f", "+ "+n)
			} else {
				sc.Opts = append(sc.Opts, "-f", "- "+n)
			}
		}
	}
	min := 0
	if arr == "A1" || arr == "A2" {
		min = 12
	}
	sc.Tr = g.TransportFor(min, 2*treeBytes(&sc.Src))
	if out.Unsupported {
		// an early error reply must fit into the transport while the client
		// is still writing (error-path behaviour on rendezvous transports is
		// not what this property is about)
		for _, c := range []*int{&sc.Tr.CapCS, &sc.Tr.CapSC} {
			if *c != kernel.Unbounded && *c < 65536 {
				*c = 65536
			}
		}
	}
	out.Sync = sc
	return out
}

func hasWild(o model.Opts) bool {
	for _, r := range o.Rules {
		if strings.ContainsAny(r.Pattern, "*?[") {
			return true
		}
	}
	return false
}

// globSelect is rsync's selection for wildcard rules without '/' (basename
// glob, first match wins), used only for the "error or rsync's semantics"
// disjunction.
func globExcluded(rules []model.Rule, name string) bool {
	base := path.Base(name)
	for _, r := range rules {
		ok, err := path.Match(r.Pattern, base)
		if err == nil && ok {
			return !r.Include
		}
	}
	return false
}

func (c13) Run(t *testing.T, scenario any, job *Job, res *Result) {
	sc := scenario.(*C13Scenario)
	lay := NewLayout(job.Scratch)
	o := model.ParseOpts(sc.Sync.Opts)
	if len(sc.Sync.Dst.Entries) > 0 {
		res.Invalid = "C13 uses an empty destination"
		return
	}
	out, err := semRun(t, &sc.Sync, lay, SessionHooks{})
	if err != nil {
		res.Invalid = err.Error()
		return
	}
	res.AddSession(out.S)
	res.Probe("arr_"+sc.Sync.Arr, 1)
	res.Probe(fmt.Sprintf("rules_%d", len(o.Rules)), 1)
	tag := ":" + arrDirection(sc.Sync.Arr)
	wild := hasWild(o)
	if wild && ((sc.Sync.Tr.CapCS != kernel.Unbounded && sc.Sync.Tr.CapCS < 65536) || (sc.Sync.Tr.CapSC != kernel.Unbounded && sc.Sync.Tr.CapSC < 65536)) && sc.Sync.Arr != "A4" {
		res.Invalid = "wildcard-rule scenarios need capacities >= 64 KiB (early error reply must fit)"
		return
	}
	if wild {
		// error, or rsync's selection; never a crash, hang or third selection
		s := out.S
		if s.Panic != "" {
			res.Violate("panic", panicSignature(s.Panic)+tag, s.Panic)
			return
		}
		if s.Outcome != kernel.Finished {
			res.Violate("deadlock", "wildcard-rule-hang"+tag, s.Pending)
			setTape(&sc.Sync.Tr, s)
			return
		}
		res.Probe("wildcard_rule_runs", 1)
		if s.ClientErr != nil || s.ServerErr != nil {
			res.Probe("wildcard_rule_rejected", 1)
			res.NonTrivial = true
			return
		}
		// success: must equal glob semantics
		exp := map[string]string{".": "d"}
		for _, l := range model.Select(out.Src, modelArgs(sc.Sync.Sources), "src", sc.Sync.Arr == "A1", model.Opts{Recursive: true, Links: true}) {
			skip := false
			for q := l.Name; q != "." && q != "/"; q = path.Dir(q) {
				if globExcluded(o.Rules, q) {
					skip = true
				}
			}
			if !skip {
				exp[l.Name] = l.Node.Type
			}
		}
		if d := diffEntrySet(exp, out.After); len(d) > 0 {
			res.Violate("silent-different-selection", "wildcard-silently-different"+tag, fmt.Sprintf("rules %v contain wildcards; the session succeeded but the selection is neither an error nor rsync's: %v", o.Rules, d))
		}
		return
	}
	if !sessionSucceeded(res, out.S, "") {
		if res.Violation == nil {
			return // inconclusive (harness trouble)
		}
		res.Violation.Signature += tag
		setTape(&sc.Sync.Tr, out.S)
		return
	}
	listed := listedFor(&sc.Sync, lay, out.Src)
	exp := expectedEntrySet(out.Before, listed, o)
	if d := diffEntrySet(exp, out.After); len(d) > 0 {
		all := model.Select(out.Src, modelArgs(sc.Sync.Sources), "src", sc.Sync.Arr == "A1", model.Opts{Recursive: true, Links: true})
		var an []string
		for _, l := range all {
			an = append(an, l.Name)
		}
		kind := "wrong-selection"
		sig := "selection"
		// classify: entry wrongly left out vs wrongly transferred
		for _, x := range d {
			if strings.HasPrefix(x, "missing") {
				sig = "selection-left-out"
			} else if strings.HasPrefix(x, "unexpected") && sig == "selection" {
				sig = "selection-not-filtered"
			}
		}
		res.Violate(kind, sig+tag, fmt.Sprintf("rules=%v arr=%s: destination differs from the first-match-wins selection: %v\nall source entries: %q", o.Rules, sc.Sync.Arr, d, an))
		setTape(&sc.Sync.Tr, out.S)
		return
	}
	nexcl := len(out.Src) - len(listed)
	res.Probe("entries_filtered_out", nexcl)
	res.NonTrivial = len(o.Rules) > 0 && nexcl > 0
	res.Sample = map[string]any{"arr": sc.Sync.Arr, "rules": o.Rules, "source_entries": len(out.Src), "selected": len(listed)}
}

// ---- C10: dry run --------------------------------------------------------------------

type C10Scenario struct {
	Sync SyncScenario `json:"sync"`
}

type c10 struct{}

func init() { Register("C10", c10{}) }

func (c10) NewScenario() any { return &C10Scenario{} }

func (c10) Generate(seed uint64, tier string, index int) any {
	g := NewGen(kernel.Derive(seed, "workload"), tier == "thorough")
	arr := arrangements[g.R.Intn(len(arrangements))]
	opts := genOptSubset(g, true)
	if g.R.Intn(2) == 0 {
		opts = append(opts, "-n")
	} else {
		opts = append([]string{"--dry-run"}, opts...)
	}
	if g.R.Intn(3) == 0 {
		opts = append(opts, "--delete")
	}
	if g.R.Intn(3) == 0 {
		// options outside the model that the client accepts and forwards: -n must
		// reach the other side and be honoured whatever else is on the line
		for i := 0; i < 1+g.R.Intn(2); i++ {
			w := c14WideOpts[g.R.Intn(len(c14WideOpts))]
			if g.R.Bool() {
				opts = append(opts, w)
			} else {
				opts = append([]string{w}, opts...)
			}
		}
	}
	to := TreeOpts{MaxEntries: 12, ByteBudget: 256 << 10, PlainNames: true, Symlinks: true, Specials: true, Devices: true}
	sc := genSync(g, arr, opts, to, true)
	sc.ModuleFS = false
	sc.Sources = []SrcArg{{Path: "", Slash: true}}
	o := model.ParseOpts(opts)
	var ls []listedSrc
	for _, l := range model.Select(fstree.SpecSnap(&sc.Src, false), modelArgs(sc.Sources), "src", arr == "A1", o) {
		if e := sc.Src.Find(l.SrcPath); e != nil {
			ls = append(ls, listedSrc{Name: l.Name, Entry: *e})
		}
	}
	sc.Dst = g.PriorDest(ls, true, g.R.Intn(3))
	genExtraneous(g, &sc.Src, &sc.Dst, g.R.Intn(3))
	min := 0
	if arr == "A1" || arr == "A2" {
		min = 12
	}
	sc.Tr = g.TransportFor(min, treeBytes(&sc.Src)+treeBytes(&sc.Dst))
	if arr != "A4" && g.R.Intn(6) == 0 {
		// dry run over what a killed real run left behind (temporary files,
		// half-made directories): still nothing may change
		sc.Kill = &KillPoint{PerMille: g.R.Intn(1001)}
	}
	return &C10Scenario{Sync: sc}
}

func (c10) Run(t *testing.T, scenario any, job *Job, res *Result) {
	sc := scenario.(*C10Scenario)
	lay := NewLayout(job.Scratch)
	o := model.ParseOpts(sc.Sync.Opts)
	if !o.DryRun {
		res.Invalid = "not a dry run"
		return
	}
	root := destRootFor(&sc.Sync, lay)
	var before fstree.Snap
	steps := 0
	hooks := SessionHooks{TapWire: sc.Sync.Arr != "A4", MaxWire: 8 << 20}
	fields := []string{"sum", "perm", "mtime", "mtime_ns", "target", "rdev", "uid", "gid"}
	hooks.OnStep = func(step int) error {
		steps++
		if before == nil || step%8 != 0 {
			return nil
		}
		now, _ := fstree.Snapshot(root)
		if d := fstree.Diff(before, now, fields...); len(d) > 0 {
			return fmt.Errorf("%v", d)
		}
		return nil
	}
	if err := prepare(&sc.Sync, lay); err != nil {
		res.Invalid = err.Error()
		return
	}
	if sc.Sync.Kill != nil && !killedState(t, &sc.Sync, lay, res) {
		return
	}
	before, _ = fstree.Snapshot(root)
	s := RunSyncSession(t, &sc.Sync, lay, hooks)
	after, _ := fstree.Snapshot(root)
	res.AddSession(s)
	res.Probe("arr_"+sc.Sync.Arr, 1)
	tag := ":" + receiverSide(sc.Sync.Arr)
	if sc.Sync.Arr == "A4" {
		tag = ":local"
	}
	if s.Outcome == kernel.HookStop {
		res.Violate("dry-run-changed", classifyDryRunDiff(s.HookErr.Error())+tag, fmt.Sprintf("mid-session (step %d): destination changed during a dry run: %v", s.Stats.Steps, s.HookErr))
		setTape(&sc.Sync.Tr, s)
		return
	}
	if d := fstree.Diff(before, after, fields...); len(d) > 0 {
		res.Violate("dry-run-changed", classifyDryRunDiff(strings.Join(d, ";"))+tag, fmt.Sprintf("opts=%v: destination changed by a dry run: %v", sc.Sync.Opts, d))
		setTape(&sc.Sync.Tr, s)
		return
	}
	if !sessionSucceeded(res, s, "") {
		if res.Violation == nil {
			return // inconclusive (harness trouble)
		}
		res.Violation.Signature += tag
		setTape(&sc.Sync.Tr, s)
		return
	}
	// the sender transmits no file data: its stream after the file list
	// consists of index echoes and phase markers only
	if hooks.TapWire {
		ps, err := parseSenderSide(&sc.Sync, s)
		if err != nil {
			res.Violate("dry-run-data", "sender-stream-not-index-echoes"+tag, fmt.Sprintf("sender stream of a dry run is not (file list, index echoes, phase markers): stage %s: %v", ps.Stage, err))
			setTape(&sc.Sync.Tr, s)
			return
		}
		if ps.Trailing != 0 || len(ps.Replies) != 0 {
			res.Violate("dry-run-data", "extra-data"+tag, fmt.Sprintf("%d trailing bytes / %d data replies in the sender stream of a dry run", ps.Trailing, len(ps.Replies)))
			return
		}
		res.Probe("index_echoes", len(ps.Echoes))
		if len(ps.Echoes) > 0 {
			res.NonTrivial = true
		}
	} else {
		res.NonTrivial = len(before) > 1
	}
	res.Sample = map[string]any{"arr": sc.Sync.Arr, "opts": sc.Sync.Opts, "src_entries": len(sc.Sync.Src.Entries), "dst_entries": len(before), "steps": s.Stats.Steps}
}

func classifyDryRunDiff(d string) string {
	switch {
	case strings.Contains(d, "extra in second"):
		return "created"
	case strings.Contains(d, "missing in second"):
		return "deleted"
	case strings.Contains(d, "type "):
		return "retyped"
	case strings.Contains(d, "content "):
		return "content"
	}
	return "metadata"
}

// ---- C14: option agreement across arrangements -------------------------------------------

type C14Scenario struct {
	Sync SyncScenario `json:"sync"` // Arr is ignored: all arrangements are run
	Arrs []string     `json:"arrs"`
	// Wide: the option set contains options the client accepts but the
	// reference model does not describe (-v, -H, -u, -d, --progress, --info,
	// --debug, ...). Only the arrangement-independence half of the property is
	// judged: every arrangement ends the same way (all succeed with the same
	// destination, or all refuse), none hangs, crashes or desynchronises.
	Wide bool `json:"wide,omitempty"`
}

// options the client's parser accepts that lie outside the reference model
var c14WideOpts = []string{"-v", "-vv", "-vvv", "--progress", "-H", "--hard-links", "-u", "--update", "-d", "--dirs", "--no-r", "--no-dirs",
	"--info=NAME", "--info=FLIST2", "--debug=FLIST", "--debug=RECV,SEND", "--no-motd", "--motd", "--no-c", "--no-H", "--no-v", "--no-progress", "--contimeout=5"}

type c14 struct{}

func init() { Register("C14", c14{}) }

func (c14) NewScenario() any { return &C14Scenario{} }

var c14Opts = []string{"-r", "-l", "-p", "-t", "-g", "-o", "-D", "--devices", "--specials", "--no-D", "--no-l", "--no-p", "--no-t", "--no-g", "--no-o", "-c", "-I", "-n", "--delete", "-a"}

func (c14) Generate(seed uint64, tier string, index int) any {
	g := NewGen(kernel.Derive(seed, "workload"), tier == "thorough")
	var opts []string
	for _, o := range c14Opts {
		p := 2
		switch o {
		case "-r":
			p = 13
		case "-a", "-n":
			p = 1
		case "--delete", "-l", "-t":
			p = 4
		}
		if g.R.Intn(16) < p {
			opts = append(opts, o)
		}
	}
	to := TreeOpts{MaxEntries: 10, ByteBudget: 64 << 10, PlainNames: true, Symlinks: true, Specials: true, Devices: true}
	sc := genSync(g, "A3p", opts, to, true)
	sc.ModuleFS = false
	sc.Sources = []SrcArg{{Path: "", Slash: true}}
	// every entry type present so that each option influences the wire format
	must := []fstree.Entry{
		{Path: "zz_link", Type: "l", Perm: 0o777, Mtime: 1_500_000_000, Target: "zz_target"},
		{Path: "zz_fifo", Type: "fifo", Perm: 0o640, Mtime: 1_500_000_001},
		{Path: "zz_chr", Type: "chr", Perm: 0o600, Mtime: 1_500_000_002, Rdev: 1<<8 | 3},
		{Path: "zz_sock", Type: "sock", Perm: 0o755, Mtime: 1_500_000_003},
		{Path: "zz_dir/inner", Type: "f", Perm: 0o604, Mtime: 1_500_000_004, Content: g.Content(1500)},
		{Path: "zz_dir/deep/inner2", Type: "f", Perm: 0o640, Mtime: 1_500_000_005, Content: g.Content(700)},
		{Path: "zz_dir/deep/er/inner3", Type: "f", Perm: 0o600, Mtime: 1_500_000_006, Content: g.Content(70)},
		{Path: "zz_file", Type: "f", Perm: 0o751, Mtime: 1_400_000_000, Content: g.Content(3000)},
		{Path: "zz_trail ", Type: "f", Perm: 0o644, Mtime: 1_400_000_001, Content: g.Content(20)}, // name ends in a blank
		{Path: "zz_trail", Type: "f", Perm: 0o644, Mtime: 1_400_000_002, Content: g.Content(21)},
		{Path: "zz_\xc3\xa9t\xc3\xa9\xf0\x9f\x93\x81", Type: "f", Perm: 0o644, Mtime: 1_400_000_003, Content: g.Content(22)}, // multi-byte UTF-8
	}
	for _, e := range must {
		if sc.Src.Find(string(e.Path)) == nil {
			sc.Src.Entries = append(sc.Src.Entries, e)
		}
	}
	if g.R.Intn(5) == 0 {
		// the contents of a directory two levels down: every arrangement must
		// place them directly in the destination
		sc.Sources = []SrcArg{{Path: []fstree.Name{"zz_dir/deep", "zz_dir/deep/er", "zz_dir"}[g.R.Intn(3)], Slash: true}}
	}
	o := model.ParseOpts(opts)
	var ls []listedSrc
	for _, l := range model.Select(fstree.SpecSnap(&sc.Src, false), modelArgs(sc.Sources), "src", false, o) {
		if e := sc.Src.Find(l.SrcPath); e != nil {
			ls = append(ls, listedSrc{Name: l.Name, Entry: *e})
		}
	}
	sc.Dst = g.PriorDest(ls, false, 0)
	genExtraneous(g, &sc.Src, &sc.Dst, g.R.Intn(4))
	if g.R.Intn(4) == 0 && len(sc.Src.Entries) > 0 {
		e := sc.Src.Entries[g.R.Intn(len(sc.Src.Entries))]
		sc.Opts = append(sc.Opts, "--exclude="+path.Base(string(e.Path)))
	} else if g.R.Intn(8) == 0 {
		// a rule must travel over the wire byte for byte
		sc.Opts = append(sc.Opts, []string{"--exclude=zz_trail ", "--exclude=zz_trail", "--include=zz_trail ", "--exclude=zz_\xc3\xa9t\xc3\xa9\xf0\x9f\x93\x81", "--include=zz_\xc3\xa9t\xc3\xa9\xf0\x9f\x93\x81"}[g.R.Intn(5)])
	}
	sc.Tr = g.TransportFor(12, 2*treeBytes(&sc.Src)+treeBytes(&sc.Dst))
	out := &C14Scenario{Sync: sc, Arrs: []string{"A1", "A2", "A3p", "A3s", "A4"}}
	if g.R.Intn(4) == 0 {
		out.Wide = true
		for i := 0; i < 1+g.R.Intn(2); i++ {
			out.Sync.Opts = append(out.Sync.Opts, c14WideOpts[g.R.Intn(len(c14WideOpts))])
		}
	}
	return out
}

func (c14) Run(t *testing.T, scenario any, job *Job, res *Result) {
	sc := scenario.(*C14Scenario)
	lay := NewLayout(job.Scratch)
	o := model.ParseOpts(sc.Sync.Opts)
	if o.Delete && !o.Recursive {
		res.Invalid = "--delete without -r"
		return
	}
	if len(sc.Arrs) == 0 {
		res.Invalid = "no arrangements"
		return
	}
	fields := []string{"sum", "target", "rdev", "perm"}
	if o.Times {
		fields = append(fields, "fmtime")
	}
	if o.Owner {
		fields = append(fields, "uid")
	}
	if o.Group {
		fields = append(fields, "gid")
	}
	var first fstree.Snap
	firstArr := ""
	if sc.Wide {
		c14Wide(t, sc, lay, fields, res)
		return
	}
	for _, arr := range sc.Arrs {
		run := sc.Sync
		run.Arr = arr
		out, err := semRun(t, &run, lay, SessionHooks{})
		if err != nil {
			res.Invalid = err.Error()
			return
		}
		res.AddSession(out.S)
		tag := ":" + arr
		if !sessionSucceeded(res, out.S, "["+arr+"] opts="+strings.Join(sc.Sync.Opts, " ")+": ") {
			if res.Violation == nil {
				return // inconclusive (harness trouble)
			}
			res.Violation.Kind = "desync-" + res.Violation.Kind
			res.Violation.Signature = optClass(o) + tag + ":" + res.Violation.Kind
			sc.Arrs = []string{arr}
			setTape(&sc.Sync.Tr, out.S)
			return
		}
		listed := model.Select(out.Src, modelArgs(run.Sources), filepath.Base(lay.Src), arr == "A1", o)
		exp := expectedEntrySet(out.Before, listed, o)
		if d := diffEntrySet(exp, out.After); len(d) > 0 {
			res.Violate("option-not-honoured", "entry-set"+tag+":"+classifyEntryDiff(d, o), fmt.Sprintf("[%s] opts=%v: destination entry set differs from the model: %v", arr, sc.Sync.Opts, d))
			sc.Arrs = []string{arr}
			return
		}
		if first == nil {
			first, firstArr = out.After, arr
		} else if d := fstree.Diff(first, out.After, fields...); len(d) > 0 {
			res.Violate("arrangements-differ", "differs:"+firstArr+"-vs-"+arr, fmt.Sprintf("opts=%v: destination after %s differs from destination after %s: %v", sc.Sync.Opts, arr, firstArr, d))
			sc.Arrs = []string{firstArr, arr}
			return
		}
	}
	res.Probe("arrangement_runs", len(sc.Arrs))
	res.NonTrivial = len(sc.Arrs) >= 2
	res.Sample = map[string]any{"opts": sc.Sync.Opts, "arrs": sc.Arrs, "src_entries": len(sc.Sync.Src.Entries), "dst_entries": len(sc.Sync.Dst.Entries)}
}

// c14Wide judges option sets outside the reference model by arrangement
// independence alone.
func c14Wide(t *testing.T, sc *C14Scenario, lay Layout, fields []string, res *Result) {
	type outcome struct {
		arr  string
		ok   bool
		err  string
		tree fstree.Snap
	}
	var outs []outcome
	for _, arr := range sc.Arrs {
		run := sc.Sync
		run.Arr = arr
		out, err := semRun(t, &run, lay, SessionHooks{})
		if err != nil {
			res.Invalid = err.Error()
			return
		}
		res.AddSession(out.S)
		s := out.S
		prefix := "[" + arr + "] opts=" + strings.Join(sc.Sync.Opts, " ") + ": "
		if s.Harness != "" {
			res.Inconclusive = prefix + s.Harness
			return
		}
		switch {
		case s.Panic != "":
			res.Violate("desync-panic", "wide:"+arr+":"+panicSignature(s.Panic), prefix+s.Panic)
		case s.Outcome == kernel.Deadlock:
			res.Violate("desync-deadlock", "wide:"+arr+":deadlock", prefix+"no operation enabled and session not finished: "+s.Pending+
				"\nclient stderr: "+tail(s.ClientStderr, 800)+"\nserver stderr: "+tail(s.ServerStderr, 800))
		case s.Outcome != kernel.Finished:
			res.Inconclusive = prefix + "outcome " + s.Outcome.String()
		}
		if res.Violation != nil || res.Inconclusive != "" {
			sc.Arrs = []string{arr}
			setTape(&sc.Sync.Tr, s)
			return
		}
		o := outcome{arr: arr, ok: s.ClientErr == nil && s.ServerErr == nil, tree: out.After}
		if !o.ok {
			o.err = "client: " + ErrString(s.ClientErr) + "; server: " + ErrString(s.ServerErr)
		}
		outs = append(outs, o)
	}
	if len(outs) < 2 {
		return
	}
	nOK := 0
	for _, o := range outs {
		if o.ok {
			nOK++
		}
	}
	res.Probe("wide_option_sets", 1)
	if nOK == 0 {
		res.Probe("wide_refused_everywhere", 1)
		return
	}
	if nOK != len(outs) {
		var okArr, badArr, badErr string
		for _, o := range outs {
			if o.ok && okArr == "" {
				okArr = o.arr
			}
			if !o.ok && badArr == "" {
				badArr, badErr = o.arr, o.err
			}
		}
		res.Violate("arrangements-differ", "wide-outcome:"+wideOptTag(sc.Sync.Opts), fmt.Sprintf("opts=%v: accepted and carried out in %s, but fails in %s: %s", sc.Sync.Opts, okArr, badArr, badErr))
		sc.Arrs = []string{okArr, badArr}
		return
	}
	for _, o := range outs[1:] {
		if d := fstree.Diff(outs[0].tree, o.tree, fields...); len(d) > 0 {
			res.Violate("arrangements-differ", "wide-differs:"+wideOptTag(sc.Sync.Opts), fmt.Sprintf("opts=%v: destination after %s differs from destination after %s: %v", sc.Sync.Opts, o.arr, outs[0].arr, d))
			sc.Arrs = []string{outs[0].arr, o.arr}
			return
		}
	}
	res.NonTrivial = true
	res.Sample = map[string]any{"opts": sc.Sync.Opts, "arrs": sc.Arrs, "wide": true}
}

// wideOptTag names the wide options present (sorted, without values).
func wideOptTag(opts []string) string {
	seen := map[string]bool{}
	for _, o := range opts {
		for _, w := range c14WideOpts {
			if o == w {
				n := strings.TrimLeft(o, "-")
				if i := strings.IndexByte(n, '='); i >= 0 {
					n = n[:i]
				}
				switch n {
				case "H":
					n = "hard-links"
				case "u":
					n = "update"
				case "d":
					n = "dirs"
				case "vv", "vvv":
					n = "v"
				}
				seen[n] = true
			}
		}
	}
	var l []string
	for n := range seen {
		l = append(l, n)
	}
	sort.Strings(l)
	return strings.Join(l, "+")
}

func optClass(o model.Opts) string {
	switch {
	case o.Specials && !o.Devices:
		return "specials-without-devices"
	case o.Devices && !o.Specials:
		return "devices-without-specials"
	}
	return "opts"
}

func classifyEntryDiff(d []string, o model.Opts) string {
	for _, x := range d {
		if strings.HasPrefix(x, "unexpected") {
			if o.Delete {
				return "not-deleted"
			}
			return "unexpected-entry"
		}
	}
	return "missing-entry"
}

var _ = os.Getuid
