// Package props contains one workload generator + oracle per property and the
// shared machinery to run real client and real daemon code against each other
// (or against the reference peer) inside the simulator.
package props

import (
	"bytes"
	"context"
	"fmt"
	"os"
	"path/filepath"
	"runtime/debug"
	"strings"
	"sync"
	"testing"
	"testing/synctest"
	"time"

	"github.com/gokrazy/rsync/rsyncclient"
	"github.com/gokrazy/rsync/rsynccmd"
	"github.com/gokrazy/rsync/rsyncd"

	"verif/sim/fstree"
	"verif/sim/kernel"
)

// Transport is the transport personality of one run.
type Transport struct {
	CapCS     int      `json:"cap_cs"` // client→server capacity (-1 unbounded, 0 rendezvous)
	CapSC     int      `json:"cap_sc"`
	Chunk     int      `json:"chunk"`
	MinChunk  int      `json:"min_chunk,omitempty"`
	Bias      int      `json:"bias"`
	StarveDir int      `json:"starve_dir,omitempty"` // 0: c→s, 1: s→c
	Delays    bool     `json:"delays,omitempty"`
	SchedSeed uint64   `json:"sched_seed"`
	Tape      []uint32 `json:"tape,omitempty"` // explicit schedule (replay)
	MaxSteps  int      `json:"max_steps,omitempty"`
	// Seed is the session checksum seed the real server announces (pinned
	// through the guarded hook so that wire bytes replay exactly); nil: derived
	// from SchedSeed.
	Seed *int32 `json:"seed,omitempty"`
	// ReadWindow, if > 0, shrinks the real sender's file read window (default
	// 256 KiB) to max(3*blockLength, ReadWindow) through the guarded knob, so
	// that the window slides, re-aligns and regrows on small files too.
	ReadWindow int `json:"read_window,omitempty"`
	// MinBlock, if > 0, lowers the minimum delta block length both real ends
	// choose (default 700) to MinBlock through the guarded knob: the block
	// length becomes max(floor(sqrt(size)), MinBlock), so files of a few
	// hundred bytes already consist of many blocks plus a remainder.
	MinBlock int `json:"min_block,omitempty"`
}

// ApplyKnobs pins the process-wide hooks (checksum seed, tuning knobs) for the
// sessions of this transport.
func (tr *Transport) ApplyKnobs() {
	if os.Getenv("VERIF_RACE") != "" {
		// race-detector workers run free, unscheduled sessions whose goroutines
		// may outlive a run: the process-wide hook variables are written once
		// and never again, or the detector reports the harness itself
		knobsOnce.Do(func() { pinSeed(20260923); setReadWindow(0); setMinBlock(0) })
		return
	}
	pinSeed(tr.ChecksumSeed())
	setReadWindow(tr.ReadWindow)
	setMinBlock(tr.MinBlock)
}

var knobsOnce sync.Once

// ChecksumSeed returns the seed pinned for sessions of this transport.
func (tr *Transport) ChecksumSeed() int32 {
	if tr.Seed != nil {
		return *tr.Seed
	}
	return int32(kernel.Derive(tr.SchedSeed, "checksum-seed"))
}

func (tr *Transport) NewSim() *kernel.Sim {
	tr.ApplyKnobs()
	var tape *kernel.Tape
	if tr.Tape != nil {
		tape = kernel.NewFixedTape(tr.Tape)
	} else {
		tape = kernel.NewTape(tr.SchedSeed)
	}
	return kernel.New(kernel.Config{
		Chunk: tr.Chunk, MinChunk: tr.MinChunk, Bias: tr.Bias, StarvePipe: tr.StarveDir,
		Delays: tr.Delays, MaxSteps: tr.MaxSteps,
	}, tape)
}

// Fault is one injected fault.
type Fault struct {
	Kind string `json:"kind"`          // cut flip freeze stall
	Dir  int    `json:"dir,omitempty"` // 0: client→server pipe, 1: server→client pipe
	At   int64  `json:"at"`            // byte offset (cut, flip, freeze) or step (stall)
	Bit  int    `json:"bit,omitempty"`
	Len  int    `json:"len,omitempty"`  // stall length in steps
	Node string `json:"node,omitempty"` // client | server (stall)
}

// SrcArg is one source argument: a path inside the source root.
type SrcArg struct {
	Path  fstree.Name `json:"path"`  // "" = the root directory itself
	Slash bool        `json:"slash"` // trailing slash: copy the contents
}

// SyncScenario is one transfer between real client code and real server code.
type SyncScenario struct {
	// Kill: the prior state of the destination is what a process kill (of
	// both ends) at scheduler step Kill.PerMille/1000 of an earlier sync with
	// the same source, destination and options (minus -n) would have left
	// behind - temporary files, half-created directories and all. The judged
	// sync then starts from that state. Honoured by C01 and semRun.
	Kill     *KillPoint  `json:"kill,omitempty"`
	Arr      string      `json:"arr"` // A1 pull-daemon, A2 push-daemon, A3p/A3s library pull/push, A4 local CLI
	Src      fstree.Tree `json:"src"`
	Dst      fstree.Tree `json:"dst"`
	Opts     []string    `json:"opts"`
	Sources  []SrcArg    `json:"sources"`
	ModuleFS bool        `json:"module_fs,omitempty"`
	DestSub  string      `json:"dest_sub,omitempty"` // A2: subdirectory of the module to upload into
	Tr       Transport   `json:"tr"`
	Faults   []Fault     `json:"faults,omitempty"`
	ViaServe bool        `json:"via_serve,omitempty"` // daemon side through Server.Serve(simListener)
}

// Layout of a run's scratch directory.
type Layout struct {
	Root string // scratch root of this run
	Src  string // source root (module root in A1)
	Dst  string // destination root (module root in A2)
}

func NewLayout(scratch string) Layout {
	return Layout{Root: scratch, Src: filepath.Join(scratch, "src"), Dst: filepath.Join(scratch, "dst")}
}

// SessionResult is what one simulated session produced.
type SessionResult struct {
	Outcome                                  kernel.Outcome
	ClientErr                                error
	ServerErr                                error
	ClientDone, ServerDone                   bool
	Panic                                    string // recovered panic of the client party (library call) if any
	Harness                                  string // harness trouble (bubble panic): the run is inconclusive, never a violation
	Stats                                    kernel.Stats
	Hash                                     uint64
	Shape                                    uint64
	Tape                                     []uint32
	Pending                                  string
	ClientStderr, ClientStdout, ServerStderr string
	WireCS, WireSC                           []byte // tapped wire bytes when requested
	HookErr                                  error
	BytesCS, BytesSC                         int64 // bytes accepted per direction
	CutFired, FreezeFired                    bool
}

// SessionHooks customise a session run.
type SessionHooks struct {
	OnStep  func(step int) error
	TapWire bool
	MaxWire int
	// AfterFrozen is called when the run stops because a party is frozen (the
	// crash point): the destination may be inspected; afterwards the run is
	// shut down.
	AfterFrozen func()
	// BeforeShutdown is called after the scheduler loop ended, before
	// outstanding goroutines are released.
	BeforeShutdown func(res *SessionResult)
	// Middle, if set, is interposed between client and server: it receives the
	// client-facing and server-facing endpoints and runs as its own party.
	Middle     func(toClient, toServer *kernel.End) error
	MiddleCaps [2]int
	// Modules overrides the daemon's module list (fault-planned fs.FS modules).
	Modules []rsyncd.Module
}

type lockedBuf struct {
	mu  sync.Mutex
	b   bytes.Buffer
	max int
}

func (l *lockedBuf) Write(p []byte) (int, error) {
	l.mu.Lock()
	defer l.mu.Unlock()
	if l.max == 0 || l.b.Len() < l.max {
		l.b.Write(p)
	}
	return len(p), nil
}
func (l *lockedBuf) String() string { l.mu.Lock(); defer l.mu.Unlock(); return l.b.String() }

func srcArgPath(root string, a SrcArg) string {
	p := root
	if a.Path != "" {
		p = filepath.Join(root, string(a.Path))
	}
	if a.Slash {
		p += "/"
	}
	return p
}

func guard(name string, panicOut *string, f func() error) func() error {
	return func() (err error) {
		defer func() {
			if r := recover(); r != nil {
				*panicOut = fmt.Sprintf("%s: panic: %v\n%s", name, r, debug.Stack())
				err = fmt.Errorf("panic: %v", r)
			}
		}()
		return f()
	}
}

// RunSyncSession materialises nothing: the caller has prepared lay.Src and
// lay.Dst. It runs the scenario's session inside a fresh synctest bubble under
// the deterministic scheduler and returns what happened.
func RunSyncSession(t *testing.T, sc *SyncScenario, lay Layout, hooks SessionHooks) (res *SessionResult) {
	return RunSyncSessionWithModules(t, sc, lay, hooks, hooks.Modules)
}

// RunSyncSessionWithModules is RunSyncSession with an explicit module list for
// the daemon arrangements (fault-planned fs.FS modules, several modules).
func RunSyncSessionWithModules(t *testing.T, sc *SyncScenario, lay Layout, hooks SessionHooks, mods []rsyncd.Module) (res *SessionResult) {
	res = &SessionResult{}
	if sc.Arr == "A4" {
		runA4(sc, lay, res)
		return res
	}
	defer func() {
		if r := recover(); r != nil {
			// synctest's end-of-bubble deadlock panic or a harness bug
			res.Harness = fmt.Sprintf("harness/bubble panic: %v", r)
			res.Outcome = kernel.Deadlock
		}
	}()
	synctest.Test(t, func(t *testing.T) {
		runSyncInBubble(sc, lay, hooks, res, mods)
	})
	return res
}

// runA4 runs the CLI local copy. Its transport is an io.Pipe pair created
// inside the code under test, so the simulator does not schedule it; it runs
// outside any bubble under a wall-clock watchdog (a hung copy blocks on a
// sync.Mutex inside io.Pipe, which synctest cannot see as quiescent). A hang
// is reported as a deadlock; its goroutines are abandoned.
func runA4(sc *SyncScenario, lay Layout, res *SessionResult) {
	sc.Tr.ApplyKnobs()
	cErr, cOut := &lockedBuf{max: 1 << 20}, &lockedBuf{max: 1 << 20}
	args := append([]string{}, sc.Opts...)
	for _, a := range sc.Sources {
		args = append(args, srcArgPath(lay.Src, a))
	}
	args = append(args, lay.Dst)
	cmd := rsynccmd.Command("rsync", args...)
	cmd.Stdout, cmd.Stderr, cmd.DontRestrict = cOut, cErr, true
	type out struct {
		err   error
		panic string
	}
	ch := make(chan out, 1)
	go func() {
		var o out
		defer func() {
			if r := recover(); r != nil {
				o.panic = fmt.Sprintf("cli: panic: %v\n%s", r, debug.Stack())
			}
			ch <- o
		}()
		_, o.err = cmd.Run(context.Background())
	}()
	// These sessions take milliseconds. 45 s would do; on a machine that is
	// thrashing a slow session is given a second, longer chance, because a
	// session that is merely slow finishes and one that is deadlocked does not.
	limit := 45 * time.Second
	finished := func(o out) {
		res.Outcome = kernel.Finished
		res.ClientDone, res.ClientErr, res.Panic = true, o.err, o.panic
	}
	select {
	case o := <-ch:
		finished(o)
	case <-time.After(limit):
		select {
		case o := <-ch:
			finished(o)
		case <-time.After(90 * time.Second):
			res.Outcome = kernel.Deadlock
			res.Pending = fmt.Sprintf("local copy (client and in-process server over io.Pipe) did not return within %v of wall-clock time", limit+90*time.Second)
		}
	}
	res.ClientStderr, res.ClientStdout = cErr.String(), cOut.String()
}

func applyFaults(faults []Fault, cEnd, sEnd *kernel.End, client, server *kernel.Party) {
	for _, f := range faults {
		pipe := cEnd.WPipe() // client→server
		if f.Dir == 1 {
			pipe = sEnd.WPipe()
		}
		switch f.Kind {
		case "cut":
			pipe.CutAt(f.At)
		case "flip":
			pipe.FlipAt(f.At, uint8(f.Bit))
		case "freeze":
			pipe.FreezeReaderAt(f.At)
		case "stall":
			p := client
			if f.Node == "server" {
				p = server
			}
			if p != nil {
				p.Stall(int(f.At), f.Len)
			}
		}
	}
}

func runSyncInBubble(sc *SyncScenario, lay Layout, hooks SessionHooks, res *SessionResult, mods []rsyncd.Module) {
	sim := sc.Tr.NewSim()
	sim.OnStep = hooks.OnStep
	ctx, cancel := context.WithCancel(context.Background())
	defer cancel()

	cErr, sErr, sOut := &lockedBuf{max: 1 << 20}, &lockedBuf{max: 1 << 20}, &lockedBuf{max: 1 << 20}
	_ = sOut
	cOut := &lockedBuf{max: 1 << 20}

	var clientParty, serverParty *kernel.Party
	var cEnd, sEnd *kernel.End
	var clientPanic string

	finish := func() {
		res.Stats = sim.Stats
		res.Hash, res.Shape = sim.Hash(), sim.Shape()
		res.Tape = sim.Tape().Rec
		res.HookErr = sim.HookErr
		if res.Outcome != kernel.Finished {
			res.Pending = sim.PendingSummary()
		}
		if clientParty != nil {
			res.ClientDone, res.ClientErr = clientParty.Done(), clientParty.Err()
		}
		if serverParty != nil {
			res.ServerDone, res.ServerErr = serverParty.Done(), serverParty.Err()
		}
		if hooks.BeforeShutdown != nil {
			hooks.BeforeShutdown(res)
		}
		sim.Shutdown()
		cancel()
		synctest.Wait()
		if clientParty != nil && !res.ClientDone {
			res.ClientErr = clientParty.Err()
		}
		if serverParty != nil && !res.ServerDone {
			res.ServerErr = serverParty.Err()
		}
		res.Panic = clientPanic
		res.ClientStderr, res.ClientStdout, res.ServerStderr = cErr.String(), cOut.String(), sErr.String()
		if sc.ViaServe && res.ServerErr == nil {
			// behind Serve the handler's error is only logged
			if i := strings.LastIndex(res.ServerStderr, "] handle: "); i >= 0 {
				line := res.ServerStderr[i+len("] handle: "):]
				if j := strings.IndexByte(line, '\n'); j >= 0 {
					line = line[:j]
				}
				res.ServerErr = fmt.Errorf("%s", line)
			}
			res.ServerDone = true
		}
	}

	capCS, capSC := sc.Tr.CapCS, sc.Tr.CapSC
	var ln *kernel.Listener
	if sc.ViaServe {
		ln = sim.Listen("10.9.9.9:873")
		cEnd = ln.Dial("192.0.2.7:40000", capCS, capSC)
	} else {
		cEnd, sEnd = sim.NewConn("conn", capCS, capSC)
	}
	var wireCS, wireSC bytes.Buffer
	if hooks.TapWire {
		max := hooks.MaxWire
		if max == 0 {
			max = 64 << 20
		}
		cEnd.WPipe().Tap = func(b []byte) {
			if wireCS.Len() < max {
				wireCS.Write(b)
			}
		}
		cEnd.RPipe().Tap = func(b []byte) {
			if wireSC.Len() < max {
				wireSC.Write(b)
			}
		}
	}

	// ---- server side ----
	var modules []rsyncd.Module
	daemon := sc.Arr == "A1" || sc.Arr == "A2"
	if daemon {
		switch sc.Arr {
		case "A1":
			if sc.ModuleFS {
				modules = []rsyncd.Module{{Name: "mod", FS: os.DirFS(lay.Src)}}
			} else {
				modules = []rsyncd.Module{{Name: "mod", Path: lay.Src}}
			}
		case "A2":
			modules = []rsyncd.Module{{Name: "mod", Path: lay.Dst, Writable: true}}
		}
	}
	if mods != nil {
		modules = mods
	}
	srv, err := rsyncd.NewServer(modules, rsyncd.WithStderr(sErr), rsyncd.DontRestrict())
	if err != nil {
		res.ServerErr = err
		res.Outcome = kernel.Finished
		return
	}

	// ---- client side ----
	var copts []rsyncclient.Option
	copts = append(copts, rsyncclient.WithStderr(cErr), rsyncclient.DontRestrict())
	push := sc.Arr == "A2" || sc.Arr == "A3s"
	if push {
		copts = append(copts, rsyncclient.WithSender())
	}
	client, err := rsyncclient.New(sc.Opts, copts...)
	if err != nil {
		res.ClientErr = fmt.Errorf("rsyncclient.New: %v", err)
		res.ClientDone = true
		res.Outcome = kernel.Finished
		return
	}

	var localSources []string
	for _, a := range sc.Sources {
		localSources = append(localSources, srcArgPath(lay.Src, a))
	}

	var clientFn func() error
	var serverFn func() error
	switch sc.Arr {
	case "A1":
		a := SrcArg{}
		if len(sc.Sources) > 0 {
			a = sc.Sources[0]
		}
		remote := "mod"
		if a.Path != "" {
			remote += "/" + string(a.Path)
		}
		if a.Slash {
			remote += "/"
		}
		clientFn = func() error {
			_, err := client.RunDaemon(ctx, cEnd, remote, []string{lay.Dst})
			return err
		}
	case "A2":
		remote := "mod/"
		if sc.DestSub != "" {
			remote = "mod/" + sc.DestSub
		}
		clientFn = func() error {
			_, err := client.RunDaemon(ctx, cEnd, remote, localSources)
			return err
		}
	case "A3p":
		args := client.ServerCommandOptions(localSources[0], localSources[1:]...)
		clientFn = func() error {
			_, err := client.Run(ctx, cEnd, []string{lay.Dst})
			return err
		}
		serverFn = func() error {
			return srv.HandleConnArgs(ctx, rsyncd.NewConnection(sEnd, sEnd, "sim-remote-shell"), nil, args)
		}
	case "A3s":
		args := client.ServerCommandOptions(lay.Dst)
		clientFn = func() error {
			_, err := client.Run(ctx, cEnd, append([]string{}, localSources...))
			return err
		}
		serverFn = func() error {
			return srv.HandleConnArgs(ctx, rsyncd.NewConnection(sEnd, sEnd, "sim-remote-shell"), nil, args)
		}
	default:
		res.ClientErr = fmt.Errorf("unknown arrangement %q", sc.Arr)
		return
	}
	if daemon && !sc.ViaServe {
		serverFn = func() error {
			return srv.HandleDaemonConn(ctx, rsyncd.NewConnection(sEnd, sEnd, "192.0.2.7:40000"))
		}
	}

	var cm, sm *kernel.End // endpoints the real parties use
	cm, sm = cEnd, sEnd
	if hooks.Middle != nil && !sc.ViaServe {
		// client <-> middle <-> server
		m1, m2 := sim.NewConn("mid", hooks.MiddleCaps[0], hooks.MiddleCaps[1])
		// client talks on cEnd; middle holds sEnd (client-facing) and m1 (server-facing); server holds m2
		toClient, toServer := sEnd, m1
		sm = m2
		sim.Go("middle", func() error { return hooks.Middle(toClient, toServer) }, toClient, toServer)
		// rebind server functions to sm
		switch sc.Arr {
		case "A1", "A2":
			serverFn = func() error {
				return srv.HandleDaemonConn(ctx, rsyncd.NewConnection(sm, sm, "192.0.2.7:40000"))
			}
		case "A3p":
			args := client.ServerCommandOptions(localSources[0], localSources[1:]...)
			serverFn = func() error {
				return srv.HandleConnArgs(ctx, rsyncd.NewConnection(sm, sm, "sim-remote-shell"), nil, args)
			}
		case "A3s":
			args := client.ServerCommandOptions(lay.Dst)
			serverFn = func() error {
				return srv.HandleConnArgs(ctx, rsyncd.NewConnection(sm, sm, "sim-remote-shell"), nil, args)
			}
		}
	}

	clientParty = sim.Go("client", guard("client", &clientPanic, clientFn), cm)
	if sc.ViaServe {
		go srv.Serve(ctx, ln)
	} else {
		// server panics are NOT recovered: a daemon has no recover, the
		// process dies, and that is what the worker's parent observes.
		serverParty = sim.Go("server", serverFn, sm)
	}
	applyFaults(sc.Faults, cEnd, cEndPeer(cEnd, sEnd), clientParty, serverParty)

	for {
		res.Outcome = sim.Run()
		if res.Outcome == kernel.Frozen && hooks.AfterFrozen != nil {
			hooks.AfterFrozen()
		}
		break
	}
	if hooks.TapWire {
		res.WireCS, res.WireSC = wireCS.Bytes(), wireSC.Bytes()
	}
	res.BytesCS, res.BytesSC = cEnd.WPipe().Accepted, cEnd.RPipe().Accepted
	res.CutFired = cEnd.WPipe().CutFired || cEnd.RPipe().CutFired
	res.FreezeFired = cEnd.WPipe().FreezeFired || cEnd.RPipe().FreezeFired
	finish()
	if ln != nil {
		ln.Close()
	}
}

// cEndPeer returns an End whose WPipe is the server→client pipe even when the
// server end is not known (ViaServe): the client's read pipe wrapped.
func cEndPeer(cEnd, sEnd *kernel.End) *kernel.End {
	if sEnd != nil {
		return sEnd
	}
	return kernel.PeerView(cEnd)
}

// ErrString renders an error or "".
func ErrString(err error) string {
	if err == nil {
		return ""
	}
	return err.Error()
}

func tail(s string, n int) string {
	if len(s) <= n {
		return s
	}
	return "…" + s[len(s)-n:]
}

func optsHas(opts []string, letter byte) bool {
	for _, o := range opts {
		if strings.HasPrefix(o, "--") {
			continue
		}
		if strings.HasPrefix(o, "-") && strings.IndexByte(o[1:], letter) >= 0 {
			return true
		}
	}
	return false
}
