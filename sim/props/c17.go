package props

import (
	"bytes"
	"encoding/binary"
	"fmt"
	"io"
	"strings"
	"testing"

	"verif/sim/fstree"
	"verif/sim/kernel"
	"verif/sim/model"
	"verif/sim/refproto"
)

// C17: multiplex framing is transparent.

type Reframe struct {
	Seed     uint64 `json:"seed"`
	MaxFrame int    `json:"max_frame"`          // data frames carry 1..MaxFrame bytes (drawn)
	Style    int    `json:"style"`              // 0 uniform, 1 always max, 2 always 1, 3 boundary (cut inside 4-byte words)
	InfoPct  int    `json:"info_pct"`           // chance (percent) of an info-frame run before a data frame
	InfoRun  int    `json:"info_run"`           // maximum run length of info frames
	Empty    bool   `json:"empty,omitempty"`    // interleave empty data frames
	ErrorAt  int64  `json:"error_at,omitempty"` // inject an error frame after this many data bytes (0 = never)
	// ErrorFromEnd > 0: place the error frame this many payload bytes before the
	// end of the server's stream (resolved with the un-reframed run's length):
	// 12/8/4 = before the first/second/third statistics value of a pull.
	ErrorFromEnd int64  `json:"error_from_end,omitempty"`
	ErrorMsg     string `json:"error_msg,omitempty"`
}

type C17Scenario struct {
	Sync SyncScenario `json:"sync"`
	Re   Reframe      `json:"reframe"`
	// ErrPath: instead of re-framing, damage one byte of the client's upload
	// (per mille position of the client→server volume) so that the receiving
	// server fails in mid-transfer, and check that what the server emits is
	// still a sequence of well-formed frames.
	ErrPath int `json:"err_path,omitempty"`
}

type c17 struct{}

func init() { Register("C17", c17{}) }

func (c17) NewScenario() any { return &C17Scenario{} }

func (c17) Generate(seed uint64, tier string, index int) any {
	g := NewGen(kernel.Derive(seed, "workload"), tier == "thorough")
	arr := []string{"A1", "A1", "A3p", "A2", "A3s"}[g.R.Intn(5)]
	to := TreeOpts{MaxEntries: 8, ByteBudget: 400 << 10, PlainNames: true, Symlinks: true}
	if g.R.Intn(4) == 0 {
		to.ByteBudget = 2 << 20
	}
	sc := genSync(g, arr, []string{"-rlt"}, to, false)
	sc.ModuleFS = false
	sc.Sources = []SrcArg{{Path: "", Slash: true}}
	o := model.ParseOpts(sc.Opts)
	var ls []listedSrc
	for _, l := range model.Select(fstree.SpecSnap(&sc.Src, false), modelArgs(sc.Sources), "src", arr == "A1", o) {
		if e := sc.Src.Find(l.SrcPath); e != nil {
			ls = append(ls, listedSrc{Name: l.Name, Entry: *e})
		}
	}
	sc.Dst = g.PriorDest(ls, false, 0)
	sc.Tr = g.TransportFor(12, 3*treeBytes(&sc.Src)+treeBytes(&sc.Dst))
	re := Reframe{Seed: g.R.Uint64() >> 1}
	re.MaxFrame = []int{1, 2, 3, 5, 7, 64, 1000, 4096, 32768, 65536, 262144}[g.R.Intn(11)]
	re.Style = g.R.Intn(4)
	vol := 2 * treeBytes(&sc.Src)
	if (re.MaxFrame < 64 || re.Style == 2) && vol > 60000 {
		re.MaxFrame, re.Style = 4096, 0 // keep byte-sized frames for small sessions only
	}
	re.InfoPct = []int{0, 5, 30, 100}[g.R.Intn(4)]
	re.InfoRun = []int{1, 3, 120, 500}[g.R.Intn(4)]
	if re.InfoRun > 3 && vol > 200000 && re.InfoPct > 5 {
		re.InfoPct = 2
	}
	re.Empty = g.R.Intn(3) == 0
	if g.R.Intn(5) == 0 {
		re.ErrorAt = 1 + g.R.Int63n(vol+200)
		if g.R.Intn(2) == 0 {
			re.ErrorAt = 0
			re.ErrorFromEnd = []int64{4, 8, 12, 13, 16, 20, 1, 24, 40}[g.R.Intn(9)]
		}
		re.ErrorMsg = fmt.Sprintf("simulated server failure #%d (disk on fire)", g.R.Intn(100000))
		if g.R.Intn(3) == 0 {
			// a message is data, not a format: paths and percentages occur in real ones
			re.ErrorMsg = fmt.Sprintf("rsync: open \"/srv/100%%/d%d/%%s %%d %%v%%!.txt\" failed: 5%% of quota left (%%w)", g.R.Intn(1000))
		}
	}
	out := &C17Scenario{Sync: sc, Re: re}
	if (arr == "A2" || arr == "A3s") && g.R.Intn(2) == 0 {
		out.ErrPath = 300 + g.R.Intn(700)
	}
	return out
}

// reframer is the middlebox between server and client.
type reframer struct {
	re        Reframe
	rng       *kernel.SplitMix64
	daemon    bool
	dataBytes int64
	// reach probes
	Frames, Infos, Empties, MidWord, Merged int
	ErrorSent                               bool
	MaxRun                                  int
}

func (m *reframer) writeFrame(w io.Writer, tag int, payload []byte) error {
	var hdr [4]byte
	binary.LittleEndian.PutUint32(hdr[:], uint32(refproto.MplexBase+tag)<<24|uint32(len(payload)))
	_, err := w.Write(append(hdr[:], payload...))
	return err
}

// emit re-cuts one server data frame; all resulting frames are handed to the
// transport in one Write (the transport chunks them further on its own).
func (m *reframer) emit(w io.Writer, payload []byte) error {
	var buf bytes.Buffer
	err := m.emitTo(&buf, payload)
	if buf.Len() > 0 {
		if _, werr := w.Write(buf.Bytes()); werr != nil {
			return werr
		}
	}
	return err
}

var errInjected = fmt.Errorf("error frame injected")

func (m *reframer) emitTo(w io.Writer, payload []byte) error {
	for len(payload) > 0 {
		if m.re.InfoPct > 0 && m.Infos < 20000 && m.rng.Intn(100) < m.re.InfoPct {
			run := 1 + m.rng.Intn(m.re.InfoRun)
			if run > m.MaxRun {
				m.MaxRun = run
			}
			for i := 0; i < run; i++ {
				if err := m.writeFrame(w, refproto.TagInfo, []byte(fmt.Sprintf("info message %d from the middlebox\n", m.Infos))); err != nil {
					return err
				}
				m.Infos++
			}
		}
		if m.re.Empty && m.rng.Intn(4) == 0 {
			if err := m.writeFrame(w, refproto.TagData, nil); err != nil {
				return err
			}
			m.Empties++
		}
		max := m.re.MaxFrame
		if max > len(payload) {
			max = len(payload)
		}
		k := max
		switch m.re.Style {
		case 0:
			k = 1 + m.rng.Intn(max)
		case 2:
			k = 1
		case 3:
			k = 1 + m.rng.Intn(max)
			if k%4 == 0 && k > 1 {
				k-- // end inside a 4-byte word
			}
		}
		if k%4 != 0 {
			m.MidWord++
		}
		if m.re.ErrorAt > 0 && m.dataBytes+int64(k) >= m.re.ErrorAt && !m.ErrorSent {
			k = int(m.re.ErrorAt - m.dataBytes)
			if k > 0 {
				if err := m.writeFrame(w, refproto.TagData, payload[:k]); err != nil {
					return err
				}
				m.Frames++
				m.dataBytes += int64(k)
			}
			m.ErrorSent = true
			if err := m.writeFrame(w, refproto.TagError, []byte(m.re.ErrorMsg+"\n")); err != nil {
				return err
			}
			return errInjected
		}
		if err := m.writeFrame(w, refproto.TagData, payload[:k]); err != nil {
			return err
		}
		m.Frames++
		m.dataBytes += int64(k)
		payload = payload[k:]
	}
	return nil
}

func readLine(r io.Reader) ([]byte, error) {
	var line []byte
	var b [1]byte
	for {
		if _, err := io.ReadFull(r, b[:]); err != nil {
			return line, err
		}
		line = append(line, b[0])
		if b[0] == '\n' {
			return line, nil
		}
	}
}

// run is the middle party: client-facing endpoint toClient, server-facing toServer.
func (m *reframer) run(toClient, toServer *kernel.End) error {
	go func() {
		// client → server: transparent
		buf := make([]byte, 64<<10)
		for {
			n, err := toClient.Read(buf)
			if n > 0 {
				if _, werr := toServer.Write(buf[:n]); werr != nil {
					return
				}
			}
			if err != nil {
				toServer.CloseWrite()
				return
			}
		}
	}()
	defer toClient.Close()
	defer toServer.Close()
	// server → client preamble
	if m.daemon {
		for {
			line, err := readLine(toServer)
			if len(line) > 0 {
				if _, werr := toClient.Write(line); werr != nil {
					return werr
				}
			}
			if err != nil {
				return nil
			}
			if string(line) == "@RSYNCD: OK\n" {
				break
			}
		}
	} else {
		var ver [4]byte
		if _, err := io.ReadFull(toServer, ver[:]); err != nil {
			return nil
		}
		toClient.Write(ver[:])
	}
	var seed [4]byte
	if _, err := io.ReadFull(toServer, seed[:]); err != nil {
		return nil
	}
	if _, err := toClient.Write(seed[:]); err != nil {
		return err
	}
	for {
		var hdr [4]byte
		if _, err := io.ReadFull(toServer, hdr[:]); err != nil {
			return nil
		}
		h := binary.LittleEndian.Uint32(hdr[:])
		tag := int(h>>24) - refproto.MplexBase
		n := int(h & 0xffffff)
		payload := make([]byte, n)
		if _, err := io.ReadFull(toServer, payload); err != nil {
			return nil
		}
		if tag != refproto.TagData {
			if err := m.writeFrame(toClient, tag, payload); err != nil {
				return nil
			}
			continue
		}
		// merge the data frames that have already arrived, so that the re-cut
		// frames can also be LARGER than the server's own (causality is kept:
		// only bytes the server has already emitted are used)
		for m.re.MaxFrame > len(payload) && toServer.Available() >= 4 && len(payload) < 1<<20 {
			var h2 [4]byte
			if _, err := io.ReadFull(toServer, h2[:]); err != nil {
				break
			}
			hh := binary.LittleEndian.Uint32(h2[:])
			t2 := int(hh>>24) - refproto.MplexBase
			p2 := make([]byte, int(hh&0xffffff))
			if _, err := io.ReadFull(toServer, p2); err != nil {
				break
			}
			if t2 != refproto.TagData {
				if err := m.emit(toClient, payload); err != nil {
					return nil
				}
				payload = nil
				if err := m.writeFrame(toClient, t2, p2); err != nil {
					return nil
				}
				continue
			}
			payload = append(payload, p2...)
			m.Merged++
		}
		if len(payload) == 0 {
			continue
		}
		if err := m.emit(toClient, payload); err != nil {
			return nil
		}
	}
}

func (c17) Run(t *testing.T, scenario any, job *Job, res *Result) {
	sc := scenario.(*C17Scenario)
	lay := NewLayout(job.Scratch)
	if sc.Sync.Arr == "A4" || sc.Sync.ViaServe {
		res.Invalid = "no middlebox for this arrangement"
		return
	}
	if sc.Re.MaxFrame < 1 || sc.Re.MaxFrame > 1<<24-1 || sc.Re.InfoRun < 1 {
		res.Invalid = "reframe parameters"
		return
	}
	// 1. baseline without the middlebox (also: frames of the real server are well formed)
	base, err := semRun(t, &sc.Sync, lay, SessionHooks{TapWire: true, MaxWire: 64 << 20})
	if err != nil {
		res.Invalid = err.Error()
		return
	}
	res.AddSession(base.S)
	if !sessionSucceeded(res, base.S, "[baseline] ") {
		if res.Violation == nil {
			return // inconclusive (harness trouble)
		}
		setTape(&sc.Sync.Tr, base.S)
		return
	}
	// frames emitted by the real server
	if err := checkServerFrames(&sc.Sync, base.S, res, false); err != nil {
		res.Violate("malformed-frame", "server-frames:"+errSignature(err), err.Error())
		return
	}
	if sc.ErrPath > 0 {
		if (sc.Sync.Arr != "A2" && sc.Sync.Arr != "A3s") || sc.ErrPath < 300 || sc.ErrPath > 1000 {
			res.Invalid = "err_path needs a push arrangement and a position in the data phase"
			return
		}
		if err := prepare(&sc.Sync, lay); err != nil {
			res.Inconclusive = err.Error()
			return
		}
		run := sc.Sync
		at := base.S.BytesCS * int64(sc.ErrPath) / 1000
		run.Faults = []Fault{{Kind: "flip", Dir: 0, At: at, Bit: 3}}
		s := RunSyncSession(t, &run, lay, SessionHooks{TapWire: true, MaxWire: 64 << 20})
		res.AddSession(s)
		res.Probe("error_path_runs", 1)
		if s.ServerErr != nil {
			res.Probe("error_path_server_failed", 1)
		}
		if err := checkServerFrames(&sc.Sync, s, res, true); err != nil {
			res.Violate("malformed-frame", "server-frames-on-error-path:"+sc.Sync.Arr, fmt.Sprintf("the client's upload was damaged at byte %d (server: %v); afterwards the server's output is not a sequence of well-formed frames: %v", at, s.ServerErr, err))
			setTape(&sc.Sync.Tr, s)
			return
		}
		res.NonTrivial = s.ServerErr != nil
		res.Sample = map[string]any{"arr": sc.Sync.Arr, "mode": "error-path", "damaged_at": at, "server_error": ErrString(s.ServerErr)}
		return
	}
	// 2. reframed run
	if sc.Re.ErrorFromEnd > 0 {
		total := int64(res.Probes["last_server_payload_bytes"])
		sc.Re.ErrorAt = total - sc.Re.ErrorFromEnd
		if sc.Re.ErrorAt <= 0 {
			sc.Re.ErrorAt = 1
		}
	}
	m := &reframer{re: sc.Re, rng: kernel.NewRNG(sc.Re.Seed), daemon: sc.Sync.Arr == "A1" || sc.Sync.Arr == "A2"}
	hooks := SessionHooks{Middle: m.run, MiddleCaps: [2]int{kernel.Unbounded, kernel.Unbounded}}
	out, err := semRun(t, &sc.Sync, lay, hooks)
	if err != nil {
		res.Inconclusive = err.Error()
		return
	}
	res.AddSession(out.S)
	res.Probe("reframed_data_frames", m.Frames)
	res.Probe("info_frames", m.Infos)
	res.Probe("empty_frames", m.Empties)
	res.Probe("frames_ending_mid_word", m.MidWord)
	res.Probe("server_frames_merged", m.Merged)
	if m.MaxRun > 100 {
		res.Probe("info_runs_over_100", 1)
	}
	tag := ":" + sc.Sync.Arr
	desc := fmt.Sprintf("reframe=%+v frames=%d infos=%d (longest run %d) empties=%d", sc.Re, m.Frames, m.Infos, m.MaxRun, m.Empties)
	s := out.S
	if s.Panic != "" {
		res.Violate("panic", panicSignature(s.Panic)+tag, desc+"\n"+s.Panic)
		setTape(&sc.Sync.Tr, s)
		return
	}
	if s.Outcome == kernel.StepBudget {
		res.Inconclusive = "step budget exhausted in the reframed run: " + desc
		return
	}
	if s.Outcome != kernel.Finished {
		res.Violate("deadlock", "reframed-hang"+tag, desc+"\n"+s.Pending)
		setTape(&sc.Sync.Tr, s)
		return
	}
	if m.ErrorSent {
		res.Fault("error_frame", 1)
		if s.ClientErr == nil {
			res.Violate("error-frame-ignored", "error-frame-ignored"+tag, desc+": an error frame was delivered after "+fmt.Sprint(sc.Re.ErrorAt)+" data bytes but the client reported success")
			return
		}
		if !strings.Contains(s.ClientErr.Error(), sc.Re.ErrorMsg) {
			if strings.Contains(s.ClientErr.Error(), "write ") {
				tag += ":generator-write-failed-first"
			}
			res.Violate("error-message-lost", "error-message-lost"+tag, fmt.Sprintf("%s: client failed with %q which does not carry the server's message %q", desc, s.ClientErr.Error(), sc.Re.ErrorMsg))
			return
		}
		res.Probe("error_frames_surfaced", 1)
		if sc.Re.ErrorFromEnd > 0 {
			res.Probe("error_frames_at_stream_end_stage", 1)
		}
		res.NonTrivial = true
		return
	}
	if s.ClientErr != nil || s.ServerErr != nil {
		res.Violate("reframing-changes-result", "reframed-error"+tag+":"+errSignature(firstErr(s.ClientErr, s.ServerErr)), fmt.Sprintf("%s: the un-reframed session succeeds, the reframed one fails: client %v, server %v\n%s", desc, s.ClientErr, s.ServerErr, tail(s.ClientStderr, 500)))
		setTape(&sc.Sync.Tr, s)
		return
	}
	if d := fstree.Diff(base.After, out.After, "sum", "perm", "fmtime", "target"); len(d) > 0 {
		res.Violate("reframing-changes-result", "reframed-tree-differs"+tag, fmt.Sprintf("%s: destination differs from the un-reframed run: %v", desc, d))
		return
	}
	res.NonTrivial = m.Frames > 10
	res.Sample = map[string]any{"arr": sc.Sync.Arr, "reframe": sc.Re, "data_frames": m.Frames, "info_frames": m.Infos, "empty_frames": m.Empties, "steps": s.Stats.Steps}
}

// checkServerFrames verifies every frame the real server emitted in the
// baseline run: known tag, length within what the real client accepts, and the
// concatenated payloads form a valid protocol stream.
func checkServerFrames(sc *SyncScenario, s *SessionResult, res *Result, errorPath bool) error {
	wire := s.WireSC
	// skip preamble
	off := 0
	if sc.Arr == "A1" || sc.Arr == "A2" {
		idx := bytes.Index(wire, []byte("@RSYNCD: OK\n"))
		if idx < 0 {
			if errorPath {
				return nil // the session was refused before the multiplexed part
			}
			return fmt.Errorf("no @RSYNCD: OK in the server stream")
		}
		off = idx + len("@RSYNCD: OK\n")
	} else {
		off = 4
	}
	off += 4 // seed
	n := 0
	payload := 0
	for off < len(wire) {
		if off+4 > len(wire) {
			if errorPath {
				return nil // connection ended in the middle of the last write
			}
			return fmt.Errorf("truncated frame header at offset %d", off)
		}
		h := binary.LittleEndian.Uint32(wire[off:])
		tag := int(h>>24) - refproto.MplexBase
		l := int(h & 0xffffff)
		if tag != refproto.TagData && tag != refproto.TagInfo && tag != refproto.TagError {
			return fmt.Errorf("frame %d has unknown tag %d (header %08x)", n, tag, h)
		}
		if l > 256<<10 {
			return fmt.Errorf("frame %d has length %d, more than the client accepts", n, l)
		}
		if off+4+l > len(wire) {
			if errorPath {
				return nil
			}
			return fmt.Errorf("frame %d is truncated", n)
		}
		if tag == refproto.TagData {
			payload += l
		}
		off += 4 + l
		n++
	}
	if res.Probes == nil {
		res.Probes = map[string]int{}
	}
	res.Probes["last_server_payload_bytes"] = payload
	res.Probe("server_frames_checked", n)
	if !errorPath && (sc.Arr == "A1" || sc.Arr == "A3p") {
		ps, err := parseSenderSide(sc, s)
		if err != nil {
			return fmt.Errorf("concatenated frame payloads are not a valid sender stream (stage %s): %v", ps.Stage, err)
		}
	}
	return nil
}
