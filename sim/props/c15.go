package props

import (
	"bufio"
	"bytes"
	"context"
	"errors"
	"fmt"
	"io/fs"
	"os"
	"os/user"
	"path/filepath"
	"strconv"
	"strings"
	"testing"
	"time"
	"unicode/utf8"

	"github.com/gokrazy/rsync/rsyncclient"
	"github.com/gokrazy/rsync/rsyncd"

	"verif/sim/fstree"
	"verif/sim/kernel"
	"verif/sim/model"
	"verif/sim/refproto"
)

// C15: the wire format conforms to rsync protocol 27.

type C15Entry struct {
	Name  fstree.Name `json:"name"`
	Size  int64       `json:"size"`
	Mtime int32       `json:"mtime"`
	Mode  uint32      `json:"mode"`
	Link  fstree.Name `json:"link,omitempty"`
	Rdev  int32       `json:"rdev,omitempty"`
	UID   int32       `json:"uid,omitempty"`
	GID   int32       `json:"gid,omitempty"`
}

type C15Scenario struct {
	Mode    string      `json:"mode"` // decode-server decode-command decode-client encode
	Src     fstree.Tree `json:"src,omitempty"`
	Opts    []string    `json:"opts"`
	Entries []C15Entry  `json:"entries,omitempty"` // encode mode
	Style   uint64      `json:"style,omitempty"`   // encode mode: seed of per-opportunity compression choices
	LongAll bool        `json:"long_all,omitempty"`
	Long64  bool        `json:"long64,omitempty"`
	Command bool        `json:"command,omitempty"` // encode mode: remote-shell handshake instead of daemon
	// Sparse: decode modes: additional sparse source files of these sizes
	// (2^31-1, 2^31, 2^32-1, 2^32, 2^40 ...) so that the real sender has to
	// encode 64-bit lengths; they are listed but never requested.
	Sparse []int64 `json:"sparse,omitempty"`
	// HeadOnly: the sparse giants are requested after all (as whole files), but
	// the receiver only looks at the checksum header of the answer and hangs up
	HeadOnly bool      `json:"head_only,omitempty"`
	Tr       Transport `json:"tr"`
}

type c15 struct{}

func init() { Register("C15", c15{}) }

func (c15) NewScenario() any { return &C15Scenario{} }

var c15FieldOpts = []string{"-o", "-g", "-D", "-l", "-c", "-t", "-p"}

func (c15) Generate(seed uint64, tier string, index int) any {
	g := NewGen(kernel.Derive(seed, "workload"), tier == "thorough")
	sc := &C15Scenario{}
	opts := []string{"-r"}
	for _, o := range c15FieldOpts {
		if g.R.Intn(2) == 0 {
			opts = append(opts, o)
		}
	}
	sc.Opts = opts
	switch g.R.Intn(5) {
	case 0, 1:
		sc.Mode = "encode"
		n := 1 + g.R.Intn(30)
		if g.R.Intn(6) == 0 {
			n = 200 + g.R.Intn(800)
			if tier == "thorough" {
				n = 2000 + g.R.Intn(8000)
			}
		}
		sc.Entries = append(sc.Entries, C15Entry{Name: ".", Mode: refproto.SIFDIR | 0o755, Mtime: 1_500_000_000, Size: 4096})
		used := map[string]bool{".": true}
		prev := ""
		for i := 0; i < n; i++ {
			var name string
			switch g.R.Intn(6) {
			case 0: // shares a long prefix with the previous name
				name = prev + g.NameComponent(true)
			case 1: // long path
				parts := []string{}
				l := 0
				target := 300 + g.R.Intn(3700)
				for l < target {
					c := strings.Repeat(string(nameAlpha[g.R.Intn(len(nameAlpha))]), 1+g.R.Intn(200))
					parts = append(parts, c)
					l += len(c) + 1
				}
				name = strings.Join(parts, "/")
				if len(name) > 4090 {
					name = name[:4090]
				}
				name = strings.TrimRight(name, "/")
			case 2:
				name = g.NameComponent(false)
			default:
				name = g.NameComponent(true)
				if g.R.Bool() && prev != "" && !strings.Contains(prev, "\n") && len(prev) < 1000 {
					name = prev + "/" + name
				}
			}
			if name == "" || used[name] || len(name) > 4094 || strings.Contains(name, "//") || strings.HasPrefix(name, "/") || strings.HasSuffix(name, "/") ||
				strings.Contains(name, "/./") || strings.Contains(name, "/../") || strings.HasPrefix(name, "./") || strings.HasPrefix(name, "../") || strings.HasSuffix(name, "/.") || strings.HasSuffix(name, "/..") || name == ".." {
				continue
			}
			used[name] = true
			prev = name
			e := C15Entry{Name: fstree.Name(name), Mtime: int32(g.Mtime(false)), UID: int32(g.R.Intn(3) * 1000), GID: int32(g.R.Intn(3) * 100)}
			perm := uint32(g.R.Intn(0o10000))
			switch g.R.Intn(10) {
			case 0:
				e.Mode = refproto.SIFDIR | perm
				e.Size = 4096
			case 1:
				e.Mode = refproto.SIFLNK | 0o777
				e.Link = fstree.Name(g.LinkTarget())
				e.Size = int64(len(e.Link))
			case 2:
				e.Mode = refproto.SIFIFO | perm
			case 3:
				e.Mode = refproto.SIFCHR | perm
				e.Rdev = int32(g.R.Intn(1 << 16))
			case 4:
				e.Mode = refproto.SIFSOCK | perm
			case 5:
				e.Mode = refproto.SIFBLK | perm
				e.Rdev = int32(g.R.Intn(1 << 16))
			default:
				e.Mode = refproto.SIFREG | perm
				e.Size = []int64{0, 1, 1<<31 - 1, 1 << 31, 1 << 40, 1<<31 + 1, 1<<32 - 1, 1 << 32, 1<<62 + 5}[g.R.Intn(9)]
				if g.R.Bool() {
					e.Size = g.R.Int63n(1 << 20)
				}
			}
			sc.Entries = append(sc.Entries, e)
		}
		sc.Style = g.R.Uint64() >> 1
		sc.LongAll = g.R.Intn(5) == 0
		sc.Long64 = g.R.Intn(6) == 0
		sc.Command = g.R.Intn(3) == 0
		sc.Tr = g.TransportFor(12, 1<<20)
	default:
		sc.Mode = []string{"decode-server", "decode-command", "decode-client"}[g.R.Intn(3)]
		to := TreeOpts{MaxEntries: 14, ByteBudget: 64 << 10, Symlinks: true, Specials: true, Devices: true, PlainNames: false}
		if g.R.Intn(6) == 0 {
			to.MaxEntries = 150
			to.ByteBudget = 16 << 10
		}
		sc.Src = g.Tree(to)
		for i := range sc.Src.Entries {
			e := &sc.Src.Entries[i]
			if g.R.Intn(4) == 0 {
				e.Uid, e.Gid = []int{65534, 1, 4242}[g.R.Intn(3)], []int{65534, 1, 4242}[g.R.Intn(3)]
			}
			// avoid the recorded long-name finding, irrelevant here: every
			// component is cut to 200 bytes (the same cut for an entry and its
			// children, so the tree shape is kept)
			parts := strings.Split(string(e.Path), "/")
			for j, c := range parts {
				if len(c) > 200 {
					parts[j] = c[:200]
				}
			}
			e.Path = fstree.Name(strings.Join(parts, "/"))
			if e.Type == "d" && !utf8Valid(string(e.Path)) {
				e.Type, e.Perm = "fifo", 0o644 // non-UTF-8 directory names: recorded C01 finding
			}
		}
		sc.Src.Dedupe()
		sc.HeadOnly = g.R.Bool()
		if g.R.Intn(3) == 0 {
			big := []int64{1<<31 - 1, 1 << 31, 1<<31 + 1, 1<<32 - 1, 1 << 32, 1<<32 + 1, 3 << 30, 1 << 40, 1<<31 + 12345}
			for i := 0; i < 1+g.R.Intn(3); i++ {
				sc.Sparse = append(sc.Sparse, big[g.R.Intn(len(big))])
			}
			// no -c: the sender would checksum gigabytes of zeros
			var o2 []string
			for _, o := range sc.Opts {
				if o != "-c" {
					o2 = append(o2, o)
				}
			}
			sc.Opts = o2
		}
		sc.Tr = g.TransportFor(12, 256<<10)
	}
	return sc
}

func (c15) Run(t *testing.T, scenario any, job *Job, res *Result) {
	sc := scenario.(*C15Scenario)
	switch sc.Mode {
	case "encode":
		c15Encode(t, sc, job, res)
	case "decode-server", "decode-command", "decode-client":
		c15Decode(t, sc, job, res)
	default:
		res.Invalid = "mode"
	}
}

func lookupUser(uid uint32) (string, bool) {
	u, err := user.LookupId(strconv.Itoa(int(uid)))
	if err != nil {
		return "", false
	}
	return u.Username, true
}
func lookupGroup(gid uint32) (string, bool) {
	g, err := user.LookupGroupId(strconv.Itoa(int(gid)))
	if err != nil {
		return "", false
	}
	return g.Name, true
}

func typeBits(t string) uint32 {
	switch t {
	case "f":
		return refproto.SIFREG
	case "d":
		return refproto.SIFDIR
	case "l":
		return refproto.SIFLNK
	case "fifo":
		return refproto.SIFIFO
	case "sock":
		return refproto.SIFSOCK
	case "chr":
		return refproto.SIFCHR
	case "blk":
		return refproto.SIFBLK
	}
	return 0
}

func c15Decode(t *testing.T, sc *C15Scenario, job *Job, res *Result) {
	lay := NewLayout(job.Scratch)
	if err := fstree.Materialise(lay.Src, &sc.Src); err != nil {
		res.Invalid = err.Error()
		return
	}
	os.MkdirAll(lay.Dst, 0755)
	for i, sz := range sc.Sparse {
		if sz < 0 || sz > 1<<42 || model.ParseOpts(sc.Opts).Checksum {
			res.Invalid = "sparse size / -c"
			return
		}
		p := filepath.Join(lay.Src, fmt.Sprintf("sparse_%d", i))
		f, err := os.Create(p)
		if err == nil {
			err = f.Truncate(sz)
			f.Close()
		}
		if err != nil {
			res.Inconclusive = "cannot create sparse file: " + err.Error()
			return
		}
	}
	snap, err := fstree.Snapshot(lay.Src)
	if err != nil {
		res.Inconclusive = err.Error()
		return
	}
	for p, n := range snap {
		if !utf8Valid(filepath.Dir(p)) || (n.Type == "d" && !utf8Valid(p)) {
			res.Invalid = "non-UTF-8 directory names are a recorded C01 finding, not part of this check"
			return
		}
	}
	o := model.ParseOpts(sc.Opts)
	lo := listOptsFor(o)
	var headOnlyAbove int64
	maxSparse := int64(0)
	for _, sz := range sc.Sparse {
		maxSparse = max(maxSparse, sz)
	}
	// (the sender hashes a requested file to its end in a helper goroutine,
	// also after the receiver has gone: only giants of a few GiB are asked for)
	if sc.HeadOnly && len(sc.Sparse) > 0 && maxSparse <= 1<<32+1<<20 {
		headOnlyAbove = 64 << 20
		// the sender starts pumping gigabytes the moment it is asked: it must
		// meet back-pressure, or it fills an unbounded buffer long before the
		// receiver has seen the header and hung up
		if sc.Tr.CapSC < 0 || sc.Tr.CapSC > 1<<20 {
			sc.Tr.CapSC = 1 << 20
		}
		if sc.Tr.CapCS < 0 || sc.Tr.CapCS > 1<<20 {
			sc.Tr.CapCS = 1 << 20
		}
		if sc.Tr.MinChunk < 4096 {
			sc.Tr.MinChunk = 4096
		}
	}
	plan := func(idx int, e *refproto.Entry, seed int32) (bool, []byte, int, int) {
		if (e.Size > 64<<20 && headOnlyAbove == 0) || e.Size < 0 {
			return false, nil, 0, 0 // sparse giants are listed, not transferred
		}
		return true, nil, 0, 0
	}
	var pr *refproto.PullResult
	slog := &lockedBuf{max: 1 << 18}
	rr := &RefRun{Tr: sc.Tr}
	switch sc.Mode {
	case "decode-server":
		srv, err := rsyncd.NewServer([]rsyncd.Module{{Name: "mod", Path: lay.Src}}, rsyncd.WithStderr(slog), rsyncd.DontRestrict())
		if err != nil {
			res.Inconclusive = err.Error()
			return
		}
		args := append([]string{"--server", "--sender"}, sc.Opts...)
		args = append(args, ".", "mod/")
		rr.RefIsClient = true
		rr.Real = func(ctx context.Context, end *kernel.End) error {
			return srv.HandleDaemonConn(ctx, rsyncd.NewConnection(end, end, "192.0.2.9:1234"))
		}
		rr.Ref = func(w *refproto.Wire) error {
			var err error
			pr, err = refproto.Pull(w, refproto.PullOpts{Daemon: true, Module: "mod", Args: args, List: lo, ServerIsSender: true, Plan: plan, MaxData: 8 << 20, HeadOnlyAbove: headOnlyAbove})
			return err
		}
	case "decode-command":
		srv, err := rsyncd.NewServer(nil, rsyncd.WithStderr(slog), rsyncd.DontRestrict())
		if err != nil {
			res.Inconclusive = err.Error()
			return
		}
		args := append([]string{"--server", "--sender"}, sc.Opts...)
		args = append(args, ".", lay.Src+"/")
		rr.RefIsClient = true
		rr.Real = func(ctx context.Context, end *kernel.End) error {
			return srv.HandleConnArgs(ctx, rsyncd.NewConnection(end, end, "cmd"), nil, args)
		}
		rr.Ref = func(w *refproto.Wire) error {
			var err error
			pr, err = refproto.Pull(w, refproto.PullOpts{Negotiate: true, List: lo, ServerIsSender: true, Plan: plan, MaxData: 8 << 20, HeadOnlyAbove: headOnlyAbove})
			return err
		}
	case "decode-client":
		client, err := rsyncclient.New(sc.Opts, rsyncclient.WithSender(), rsyncclient.WithStderr(slog), rsyncclient.DontRestrict())
		if err != nil {
			res.Invalid = err.Error()
			return
		}
		rr.GuardReal = true
		rr.Real = func(ctx context.Context, end *kernel.End) error {
			_, err := client.RunDaemon(ctx, end, "mod/", []string{lay.Src + "/"})
			return err
		}
		rr.Ref = func(w *refproto.Wire) error {
			var err error
			pr, err = refproto.Pull(w, refproto.PullOpts{AsServer: true, Daemon: true, ServerSeed: 777, OptsFromArgs: true, List: lo, Plan: plan, MaxData: 8 << 20, HeadOnlyAbove: headOnlyAbove})
			return err
		}
	}
	out := RunWithRef(t, rr)
	res.AddRef(out)
	fail := func(kind, sig, detail string) {
		res.Violate(kind, sig+":"+sc.Mode, fmt.Sprintf("opts=%v: %s\nlog: %s", sc.Opts, detail, tail(slog.String(), 600)))
		if len(out.Tape) <= 300000 {
			sc.Tr.Tape = out.Tape
		}
	}
	if out.Panic != "" {
		fail("panic", panicSignature(out.Panic), out.Panic)
		return
	}
	if errors.Is(out.RefErr, refproto.ErrHeadOnly) {
		// the receiver hung up on purpose after a consistent checksum header;
		// the sender's broken pipe is the expected end of this session
		res.Probe("head_only_requests", 1)
		out.RefErr, out.RealErr, out.Outcome = nil, nil, kernel.Finished
	}
	if out.Outcome != kernel.Finished || out.RefErr != nil || out.RealErr != nil {
		st := ""
		if pr != nil {
			st = pr.Stage
		}
		fail("not-decodable", "decode:"+st+":"+errSignature(firstErr(out.RefErr, out.RealErr, fmt.Errorf("%v", out.Outcome))), fmt.Sprintf("independent protocol-27 decoder: %v (stage %s); real sender: %v; outcome %v %s", out.RefErr, st, out.RealErr, out.Outcome, out.Pending))
		return
	}
	// entries == source tree
	got := map[string]refproto.Entry{}
	for _, e := range pr.List.Entries {
		if _, dup := got[e.Name]; dup {
			fail("duplicate-entry", "duplicate", fmt.Sprintf("name %q listed twice", e.Name))
			return
		}
		got[e.Name] = e
	}
	for p, n := range snap {
		e, ok := got[p]
		if !ok {
			fail("entry-missing", "entry-missing", fmt.Sprintf("source entry %q (%s) is not in the decoded list %q", p, n.Type, keysOf(got)))
			return
		}
		if e.Mode&refproto.SIFMT != typeBits(n.Type) {
			fail("field-mismatch", "type", fmt.Sprintf("%q: decoded mode %o, source type %s", p, e.Mode, n.Type))
			return
		}
		if e.Mode&0o777 != n.Perm&0o777 {
			fail("field-mismatch", "perm", fmt.Sprintf("%q: decoded perm %o, source %o", p, e.Mode&0o7777, n.Perm))
			return
		}
		if int64(e.Mtime) != int64(int32(n.Mtime)) {
			fail("field-mismatch", "mtime", fmt.Sprintf("%q: decoded mtime %d, source %d", p, e.Mtime, n.Mtime))
			return
		}
		if n.Type == "f" && e.Size != n.Size {
			fail("field-mismatch", "size", fmt.Sprintf("%q: decoded size %d, source %d", p, e.Size, n.Size))
			return
		}
		if o.Owner && uint32(e.UID) != n.Uid {
			fail("field-mismatch", "uid", fmt.Sprintf("%q: decoded uid %d, source %d", p, e.UID, n.Uid))
			return
		}
		if o.Group && uint32(e.GID) != n.Gid {
			fail("field-mismatch", "gid", fmt.Sprintf("%q: decoded gid %d, source %d", p, e.GID, n.Gid))
			return
		}
		if o.Links && n.Type == "l" && e.Link != n.Target {
			fail("field-mismatch", "link", fmt.Sprintf("%q: decoded target %q, source %q", p, e.Link, n.Target))
			return
		}
		if o.Devices && (n.Type == "chr" || n.Type == "blk") && uint64(uint32(e.Rdev)) != n.Rdev {
			fail("field-mismatch", "rdev", fmt.Sprintf("%q: decoded rdev %d, source %d", p, e.Rdev, n.Rdev))
			return
		}
		if o.Checksum && n.Type == "f" {
			b, _ := os.ReadFile(filepath.Join(lay.Src, p))
			if refproto.PlainMD4(b) != e.Sum {
				fail("field-mismatch", "checksum", fmt.Sprintf("%q: list checksum is not MD4(content)", p))
				return
			}
		}
	}
	if len(got) != len(snap) {
		fail("entry-extra", "entry-extra", fmt.Sprintf("decoded %d entries, source has %d: %q", len(got), len(snap), keysOf(got)))
		return
	}
	if pr.List.IOError != 0 {
		fail("field-mismatch", "ioerr", fmt.Sprintf("I/O error word %d for a readable static tree", pr.List.IOError))
		return
	}
	// id lists name every non-zero id that has a local name
	if o.Owner {
		names := map[int32]string{}
		for _, u := range pr.List.Users {
			names[u.ID] = u.Name
		}
		for p, n := range snap {
			if n.Uid != 0 {
				if want, ok := lookupUser(n.Uid); ok && names[int32(n.Uid)] != want {
					fail("field-mismatch", "uidlist", fmt.Sprintf("%q has uid %d (%s) but the uid list says %q", p, n.Uid, want, names[int32(n.Uid)]))
					return
				}
			}
		}
	}
	if o.Group {
		names := map[int32]string{}
		for _, u := range pr.List.Groups {
			names[u.ID] = u.Name
		}
		for p, n := range snap {
			if n.Gid != 0 {
				if want, ok := lookupGroup(n.Gid); ok && names[int32(n.Gid)] != want {
					fail("field-mismatch", "gidlist", fmt.Sprintf("%q has gid %d (%s) but the gid list says %q", p, n.Gid, want, names[int32(n.Gid)]))
					return
				}
			}
		}
	}
	// a request by (our) sorted index refers to that file
	nreq := 0
	for _, fr := range pr.Files {
		want, err := os.ReadFile(filepath.Join(lay.Src, fr.Entry.Name))
		if err != nil {
			continue
		}
		nreq++
		if fr.ApplyErr != nil || !bytes.Equal(fr.Data, want) || !fr.SumOK {
			fail("index-mismatch", "index-numbering", fmt.Sprintf("requested sorted index %d = %q but received %s (sum ok %v): the two sides number files differently", fr.Idx, fr.Entry.Name, descBytes(fr.Data), fr.SumOK))
			return
		}
	}
	res.Probe("entries_decoded", len(got))
	res.Probe("sparse_files_over_2g", len(sc.Sparse))
	res.Probe("files_requested_by_index", nreq)
	res.Probe("mode_"+sc.Mode, 1)
	res.NonTrivial = len(got) > 2
	res.Sample = map[string]any{"mode": sc.Mode, "opts": sc.Opts, "entries": len(got), "requested": nreq}
}

func keysOf(m map[string]refproto.Entry) []string {
	var out []string
	for k := range m {
		out = append(out, k)
	}
	if len(out) > 40 {
		out = out[:40]
	}
	return out
}

func goMode(mode uint32) fs.FileMode {
	m := fs.FileMode(mode & 0o777)
	switch mode & refproto.SIFMT {
	case refproto.SIFDIR:
		m |= fs.ModeDir
	case refproto.SIFLNK:
		m |= fs.ModeSymlink
	case refproto.SIFIFO:
		m |= fs.ModeNamedPipe
	case refproto.SIFSOCK:
		m |= fs.ModeSocket
	case refproto.SIFCHR:
		m |= fs.ModeCharDevice
	case refproto.SIFBLK:
		m |= fs.ModeDevice
	}
	return m
}

func c15Encode(t *testing.T, sc *C15Scenario, job *Job, res *Result) {
	if len(sc.Entries) == 0 {
		res.Invalid = "no entries"
		return
	}
	o := model.ParseOpts(sc.Opts)
	lo := listOptsFor(o)
	var entries []refproto.Entry
	seen := map[string]bool{}
	for _, e := range sc.Entries {
		n := string(e.Name)
		if n == "" || seen[n] || len(n) > 4094 || strings.Contains(n, "//") || strings.HasPrefix(n, "/") || strings.HasSuffix(n, "/") || filepath.Clean(n) != n {
			res.Invalid = "name"
			return
		}
		seen[n] = true
		re := refproto.Entry{Name: n, Size: e.Size, Mtime: e.Mtime, Mode: e.Mode, Link: string(e.Link), Rdev: e.Rdev, UID: e.UID, GID: e.GID}
		if n == "." {
			re.Flags = refproto.XTopDir
		}
		entries = append(entries, re)
	}
	rng := kernel.NewRNG(sc.Style)
	picks := map[string]int{}
	style := refproto.EncodeStyle{LongNames: sc.LongAll, Long64: sc.Long64, Pick: func(label string) bool {
		if label == "long_name" {
			return rng.Intn(4) == 0
		}
		v := rng.Intn(3) != 0
		if v {
			picks[label]++
		}
		return v
	}}
	os.MkdirAll(job.Scratch, 0755)
	outPath := filepath.Join(job.Scratch, "stdout.txt")
	outFile, err := os.Create(outPath)
	if err != nil {
		res.Inconclusive = err.Error()
		return
	}
	cerr := &lockedBuf{max: 1 << 18}
	saved := os.Stdout
	os.Stdout = outFile
	client, err := rsyncclient.New(sc.Opts, rsyncclient.WithStderr(cerr), rsyncclient.DontRestrict())
	os.Stdout = saved
	if err != nil {
		outFile.Close()
		res.Invalid = err.Error()
		return
	}
	var sr *refproto.SendResult
	rr := &RefRun{Tr: sc.Tr, GuardReal: true}
	if sc.Command {
		rr.Real = func(ctx context.Context, end *kernel.End) error {
			_, err := client.Run(ctx, end, []string{""})
			return err
		}
		rr.Ref = func(w *refproto.Wire) error {
			var err error
			sr, err = refproto.Send(w, refproto.SendOpts{Server: true, Negotiate: true, Seed: 4711, Entries: entries, List: lo, Style: style})
			return err
		}
	} else {
		rr.Real = func(ctx context.Context, end *kernel.End) error {
			_, err := client.RunDaemon(ctx, end, "mod/", []string{""})
			return err
		}
		rr.Ref = func(w *refproto.Wire) error {
			var err error
			sr, err = refproto.Send(w, refproto.SendOpts{Server: true, Daemon: true, Seed: 4711, Entries: entries, List: lo, Style: style})
			return err
		}
	}
	out := RunWithRef(t, rr)
	outFile.Close()
	res.AddRef(out)
	fail := func(kind, sig, detail string) {
		res.Violate(kind, sig+":encode", fmt.Sprintf("opts=%v command=%v long_all=%v long64=%v: %s\nclient log: %s", sc.Opts, sc.Command, sc.LongAll, sc.Long64, detail, tail(cerr.String(), 600)))
		if len(out.Tape) <= 300000 {
			sc.Tr.Tape = out.Tape
		}
	}
	if out.Panic != "" {
		fail("panic", panicSignature(out.Panic), out.Panic)
		return
	}
	if out.Outcome != kernel.Finished || out.RefErr != nil || out.RealErr != nil {
		st := ""
		if sr != nil {
			st = sr.Stage
		}
		fail("valid-list-rejected", "rejected:"+errSignature(firstErr(out.RealErr, out.RefErr, fmt.Errorf("%v", out.Outcome))), fmt.Sprintf("real receiver: %v; reference sender: %v (stage %s); outcome %v %s", out.RealErr, out.RefErr, st, out.Outcome, out.Pending))
		return
	}
	// expected listing: one line per entry in sorted order
	f, err := os.Open(outPath)
	if err != nil {
		res.Inconclusive = err.Error()
		return
	}
	defer f.Close()
	var want bytes.Buffer
	for _, e := range sr.Sorted {
		fmt.Fprintf(&want, "%s %11.0f %s %s\n", goMode(e.Mode).String(), float64(e.Size), time.Unix(int64(e.Mtime), 0).Format("2006/01/02 15:04:05"), e.Name)
	}
	gotB := new(bytes.Buffer)
	gotB.ReadFrom(bufio.NewReader(f))
	if !bytes.Equal(gotB.Bytes(), want.Bytes()) {
		// find the first differing line
		gl, wl := strings.Split(gotB.String(), "\n"), strings.Split(want.String(), "\n")
		i := 0
		for i < len(gl) && i < len(wl) && gl[i] == wl[i] {
			i++
		}
		g1, w1 := "<none>", "<none>"
		if i < len(gl) {
			g1 = gl[i]
		}
		if i < len(wl) {
			w1 = wl[i]
		}
		sig := "listing-differs"
		if len(gl) != len(wl) {
			sig = "listing-count-differs"
		}
		fail("decoded-differently", sig, fmt.Sprintf("listing line %d of %d: receiver decoded %.300q, the list encodes %.300q", i, len(wl)-1, g1, w1))
		return
	}
	big := 0
	for _, e := range entries {
		if e.Size > 1<<31-1 {
			big++
		}
	}
	res.Probe("entries_encoded", len(entries))
	res.Probe("sizes_over_2g", big)
	for k, v := range picks {
		res.Probe("used_"+k, v)
	}
	res.NonTrivial = len(entries) > 2
	res.Sample = map[string]any{"mode": "encode", "opts": sc.Opts, "entries": len(entries), "command": sc.Command, "compression_uses": picks}
}

func utf8Valid(s string) bool { return utf8.ValidString(s) }
