package props

import (
	"bytes"
	"context"
	"fmt"
	"os"
	"path/filepath"
	"testing"
	"time"

	"github.com/gokrazy/rsync/rsyncd"

	"verif/sim/fstree"
	"verif/sim/kernel"
	"verif/sim/refproto"
	"verif/sim/simfs"
)

// C16: unchanged data is not re-sent: matches are found at every byte offset.

type C16File struct {
	Name     string          `json:"name"`
	Old      *fstree.Content `json:"old"`                 // what the receiver holds
	Edits    []fstree.Edit   `json:"edits"`               // applied to Old give the sender's version
	BlockLen int             `json:"block_len,omitempty"` // ref mode: block length of the reference signatures
}

type C16Scenario struct {
	Mode  string      `json:"mode"` // real (real generator) | ref (reference signatures at other block sizes)
	Files []C16File   `json:"files"`
	FS    *simfs.Plan `json:"fs,omitempty"`
	Tr    Transport   `json:"tr"`
}

type c16 struct{}

func init() { Register("C16", c16{}) }

func (c16) NewScenario() any { return &C16Scenario{} }

func (f *C16File) newContent() *fstree.Content {
	c := *f.Old
	c.Edits = append(append([]fstree.Edit(nil), f.Old.Edits...), f.Edits...)
	return &c
}

// editCost: new bytes introduced by an edit and the number of places where it
// breaks block continuity.
func editCost(e fstree.Edit) (newBytes int64, breaks int64) {
	switch e.Kind {
	case "ins", "rep", "app":
		return e.Len, 1
	case "del", "trunc":
		return 0, 1
	case "swap":
		return 0, 4
	}
	return e.Len, 1
}

func (c16) Generate(seed uint64, tier string, index int) any {
	g := NewGen(kernel.Derive(seed, "workload"), tier == "thorough")
	sc := &C16Scenario{Mode: "real"}
	if g.R.Intn(2) == 0 {
		sc.Mode = "ref"
	}
	n := 1 + g.R.Intn(3)
	var vol int64
	maxSize := int64(3 << 20)
	if tier == "thorough" {
		maxSize = 24 << 20
	}
	for i := 0; i < n; i++ {
		var sz int64
		switch g.R.Intn(5) {
		case 4:
			// shorter than, equal to or just above one block
			sz = []int64{1, 2, 100, 511, 512, 699, 700, 701, 1399, 1400, 1401}[g.R.Intn(11)]
			if g.R.Bool() {
				sz = 1 + g.R.Int63n(2100)
			}
		case 0:
			sz = 2000 + g.R.Int63n(60000)
		case 1:
			sz = 100000 + g.R.Int63n(900000)
		default:
			sz = 300000 + g.R.Int63n(maxSize-300000)
		}
		if vol+sz > maxSize+(1<<20) {
			sz = 50000 + g.R.Int63n(100000)
		}
		vol += sz
		f := C16File{Name: fmt.Sprintf("f%d", i), Old: &fstree.Content{Class: "random", Seed: g.R.Uint64() >> 1, Size: sz}}
		k := g.R.Intn(5) // 0 edits = identical file
		cur := sz
		for j := 0; j < k; j++ {
			off := g.R.Int63n(cur + 1)
			l := int64(1 + g.R.Intn(100))
			if g.R.Intn(3) == 0 {
				l = int64(1 + g.R.Intn(20000))
			}
			if g.R.Intn(10) == 0 && sz > 100000 {
				// an unmatched run longer than the sender's literal flush threshold
				// (block length + 256 KiB): the search must pick up again after it
				l = int64(270000 + g.R.Intn(400000))
			}
			switch g.R.Intn(8) {
			case 0, 1:
				f.Edits = append(f.Edits, fstree.Edit{Kind: "ins", Off: off, Len: l, Seed: g.R.Uint64() >> 1})
				cur += l
			case 2:
				if off+l > cur {
					l = cur - off
				}
				f.Edits = append(f.Edits, fstree.Edit{Kind: "del", Off: off, Len: l})
				cur -= l
			case 3:
				if off+l > cur {
					l = cur - off
				}
				f.Edits = append(f.Edits, fstree.Edit{Kind: "rep", Off: off, Len: l, Seed: g.R.Uint64() >> 1})
			case 4:
				f.Edits = append(f.Edits, fstree.Edit{Kind: "ins", Off: 0, Len: l, Seed: g.R.Uint64() >> 1}) // prepend
				cur += l
			case 5:
				f.Edits = append(f.Edits, fstree.Edit{Kind: "app", Len: l, Seed: g.R.Uint64() >> 1})
				cur += l
			case 6:
				bl := int64(700 + g.R.Intn(3000))
				if cur >= 4*bl {
					o1 := g.R.Int63n(cur/2 - bl)
					o2 := cur/2 + g.R.Int63n(cur/2-bl)
					f.Edits = append(f.Edits, fstree.Edit{Kind: "swap", Off: o1, Off2: o2, Len: bl})
				}
			default:
				f.Edits = append(f.Edits, fstree.Edit{Kind: "rep", Off: off, Len: 1, Seed: g.R.Uint64() >> 1})
			}
		}
		if sc.Mode == "ref" {
			bls := []int{700, 704, 1000, 1024, 2048, 4096, 8192, 16384, 65536, 131072}
			f.BlockLen = bls[g.R.Intn(len(bls))]
			if g.R.Intn(3) == 0 {
				f.BlockLen = 700 + 8*g.R.Intn(1500)
			}
		}
		sc.Files = append(sc.Files, f)
	}
	if g.R.Intn(4) == 0 {
		sc.FS = &simfs.Plan{Seed: g.R.Uint64() >> 1, ShortReads: true}
	}
	sc.Tr = g.TransportFor(12, 3*vol)
	return sc
}

func (c16) Run(t *testing.T, scenario any, job *Job, res *Result) {
	sc := scenario.(*C16Scenario)
	if len(sc.Files) == 0 {
		res.Invalid = "no files"
		return
	}
	lay := NewLayout(job.Scratch)
	os.MkdirAll(lay.Src, 0755)
	os.MkdirAll(lay.Dst, 0755)
	byName := map[string]*C16File{}
	newData := map[string][]byte{}
	oldData := map[string][]byte{}
	for i := range sc.Files {
		f := &sc.Files[i]
		if f.Old == nil || filepath.Base(f.Name) != f.Name || f.Name == "" || byName[f.Name] != nil {
			res.Invalid = "file spec"
			return
		}
		byName[f.Name] = f
		oldData[f.Name] = f.Old.Bytes()
		newData[f.Name] = f.newContent().Bytes()
		p := filepath.Join(lay.Src, f.Name)
		if err := os.WriteFile(p, newData[f.Name], 0644); err != nil {
			res.Invalid = err.Error()
			return
		}
		os.Chtimes(p, time.Unix(1600000000, 0), time.Unix(1600000000, 0))
		if sc.Mode == "real" {
			d := filepath.Join(lay.Dst, f.Name)
			os.WriteFile(d, oldData[f.Name], 0644)
			os.Chtimes(d, time.Unix(1500000000, 0), time.Unix(1500000000, 0)) // other mtime: always requested
		}
	}
	mod := rsyncd.Module{Name: "mod", Path: lay.Src}
	var sfs *simfs.FS
	if sc.FS != nil {
		sfs = simfs.New(lay.Src, *sc.FS)
		mod = rsyncd.Module{Name: "mod", FS: sfs}
	}

	type measured struct {
		name    string
		literal int64
		block   int64
		refs    int
	}
	var got []measured
	var steps int
	fail := func(kind, sig, detail string, tape []uint32) {
		res.Violate(kind, sig, detail)
		if len(tape) <= 300000 {
			sc.Tr.Tape = tape
		}
	}

	if sc.Mode == "real" {
		run := SyncScenario{Arr: "A1", Opts: []string{"-rt"}, Sources: []SrcArg{{Path: "", Slash: true}}, Tr: sc.Tr}
		// module kind is chosen by hand here (simfs plan), so run the session directly
		s := runC16Real(t, &run, lay, mod)
		res.AddSession(s)
		steps = s.Stats.Steps
		if !sessionSucceeded(res, s, "") {
			if res.Violation == nil {
				return // inconclusive (harness trouble)
			}
			setTape(&sc.Tr, s)
			return
		}
		ps, err := refproto.ParseServerSenderStream(s.WireSC, true, false, false, refproto.ListOpts{})
		if err != nil {
			fail("unparsable-stream", "unparsable", fmt.Sprintf("sender stream not decodable as protocol 27 (stage %s): %v", ps.Stage, err), s.Tape)
			return
		}
		for _, rp := range ps.Replies {
			if int(rp.Idx) >= len(ps.Sorted) || rp.Idx < 0 {
				fail("bad-index", "bad-index", fmt.Sprintf("reply for index %d of %d", rp.Idx, len(ps.Sorted)), s.Tape)
				return
			}
			got = append(got, measured{ps.Sorted[rp.Idx].Name, rp.Literal, int64(rp.Head.BlockLen), rp.BlockRef})
		}
		// exact reconstruction by the real receiver
		for name, want := range newData {
			b, err := os.ReadFile(filepath.Join(lay.Dst, name))
			if err != nil || !bytes.Equal(b, want) {
				fail("wrong-content", "content", fmt.Sprintf("file %q not reconstructed exactly (%v)", name, err), s.Tape)
				return
			}
		}
	} else {
		slog := &lockedBuf{max: 1 << 18}
		srv, err := rsyncd.NewServer([]rsyncd.Module{mod}, rsyncd.WithStderr(slog), rsyncd.DontRestrict())
		if err != nil {
			res.Inconclusive = err.Error()
			return
		}
		var pr *refproto.PullResult
		out := RunWithRef(t, &RefRun{Tr: sc.Tr, RefIsClient: true,
			Real: func(ctx context.Context, end *kernel.End) error {
				return srv.HandleDaemonConn(ctx, rsyncd.NewConnection(end, end, "192.0.2.9:1234"))
			},
			Ref: func(w *refproto.Wire) error {
				var err error
				pr, err = refproto.Pull(w, refproto.PullOpts{Daemon: true, Module: "mod", Args: []string{"--server", "--sender", "-r", ".", "mod/"},
					ServerIsSender: true, MaxData: 128 << 20,
					Plan: func(idx int, e *refproto.Entry, seed int32) (bool, []byte, int, int) {
						f := byName[e.Name]
						if f == nil {
							return false, nil, 0, 0
						}
						return true, oldData[e.Name], f.BlockLen, 16
					}})
				return err
			}})
		res.AddRef(out)
		steps = out.Stats.Steps
		if out.Outcome != kernel.Finished || out.RefErr != nil || out.RealErr != nil {
			fail("session-error", "ref-session:"+errSignature(firstErr(out.RefErr, out.RealErr, fmt.Errorf("%v", out.Outcome))), fmt.Sprintf("outcome %v ref %v real %v %s\n%s", out.Outcome, out.RefErr, out.RealErr, out.Pending, tail(slog.String(), 800)), out.Tape)
			return
		}
		for _, fr := range pr.Files {
			if fr.ApplyErr != nil || !bytes.Equal(fr.Data, newData[fr.Entry.Name]) || !fr.SumOK {
				fail("wrong-content", "content", fmt.Sprintf("file %q: reconstruction from the reference basis is not exact (apply: %v, sum ok: %v)", fr.Entry.Name, fr.ApplyErr, fr.SumOK), out.Tape)
				return
			}
			got = append(got, measured{fr.Entry.Name, fr.Reply.Literal, int64(fr.Reply.Head.BlockLen), fr.Reply.BlockRef})
		}
	}
	if sfs != nil {
		res.Probe("fs_short_reads", sfs.ShortReadCount)
	}
	if len(got) != len(sc.Files) {
		fail("missing-reply", "reply-count", fmt.Sprintf("%d files were due for transfer, %d replies seen", len(sc.Files), len(got)), nil)
		return
	}
	var samples []any
	for _, m := range got {
		f := byName[m.name]
		if f == nil {
			continue
		}
		B := m.block
		var bound int64 = B
		for _, e := range f.Edits {
			nb, br := editCost(e)
			bound += nb + br*3*B
		}
		identical := len(f.Edits) == 0
		if identical {
			bound = 0
		}
		oldLen, newLen := int64(len(oldData[m.name])), int64(len(newData[m.name]))
		res.Probe("files_measured", 1)
		res.Probe("block_refs", m.refs)
		if identical {
			res.Probe("identical_files", 1)
		}
		if B == 0 && oldLen > 0 {
			fail("no-delta", "no-delta:"+sc.Mode, fmt.Sprintf("file %q: block length 0 in the reply although the receiver holds %d bytes of it", m.name, oldLen), nil)
			return
		}
		if m.literal > bound {
			fail("literal-excess", "literal-excess:"+sc.Mode, fmt.Sprintf("file %q (%d bytes, receiver's copy %d bytes, %d edits %v, block length %d on the wire): sender transmitted %d literal bytes, bound is %d (%d block references)",
				m.name, newLen, oldLen, len(f.Edits), f.Edits, B, m.literal, bound, m.refs), nil)
			return
		}
		if newLen > 4*B && len(f.Edits) > 0 {
			res.NonTrivial = true
		}
		samples = append(samples, map[string]any{"size": newLen, "edits": len(f.Edits), "block_len": B, "literal": m.literal, "bound": bound, "refs": m.refs})
	}
	res.Sample = map[string]any{"mode": sc.Mode, "fs_backed": sc.FS != nil, "files": samples, "steps": steps}
}

func runC16Real(t *testing.T, run *SyncScenario, lay Layout, mod rsyncd.Module) *SessionResult {
	return RunSyncSessionWithModules(t, run, lay, SessionHooks{TapWire: true, MaxWire: 256 << 20}, []rsyncd.Module{mod})
}
