package props

import (
	"fmt"
	"os"
	"path/filepath"
	"sort"
	"strings"
	"testing"

	"verif/sim/fstree"
	"verif/sim/kernel"
	"verif/sim/model"
)

// C04: destination paths change atomically; temporary files are removed after
// an error return.

type C04Fault struct {
	Kind string `json:"kind"`           // cut | freeze
	Dir  int    `json:"dir"`            // 0 client→server, 1 server→client
	Frac int    `json:"frac,omitempty"` // position in per-mille of the direction's volume (resolved by a fault-free run)
	At   int64  `json:"at,omitempty"`   // explicit byte offset (wins over Frac when > 0 or Frac == 0)
}

type C04Scenario struct {
	Sync   SyncScenario `json:"sync"`
	Faults []C04Fault   `json:"c04_faults"`
}

type c04 struct{}

func init() { Register("C04", c04{}) }

func (c04) NewScenario() any { return &C04Scenario{} }

func (c04) Generate(seed uint64, tier string, index int) any {
	g := NewGen(kernel.Derive(seed, "workload"), tier == "thorough")
	arr := []string{"A1", "A2", "A3p", "A3s"}[g.R.Intn(4)]
	to := TreeOpts{MaxEntries: 8, ByteBudget: 96 << 10, PlainNames: g.R.Intn(3) != 0, Symlinks: true, MaxDepth: 2}
	if g.R.Intn(4) == 0 {
		to.ByteBudget = 1 << 20
	}
	opts := []string{"-rlt"}
	if g.R.Intn(3) == 0 {
		opts = []string{"-a"}
	}
	if g.R.Intn(4) == 0 {
		opts = append(opts, "-I")
	}
	if g.R.Intn(3) == 0 {
		// the delete pass runs before any data arrives: it must not touch listed paths
		opts = append(opts, "--delete")
	}
	sc := genSync(g, arr, opts, to, true)
	sc.ModuleFS = false
	sc.Sources = []SrcArg{{Path: "", Slash: true}}
	// regenerate prior destination for the root-contents listing
	o := model.ParseOpts(opts)
	var ls []listedSrc
	for _, l := range model.Select(fstree.SpecSnap(&sc.Src, false), modelArgs(sc.Sources), "src", arr == "A1", o) {
		if e := sc.Src.Find(l.SrcPath); e != nil {
			ls = append(ls, listedSrc{Name: l.Name, Entry: *e})
		}
	}
	sc.Dst = g.PriorDest(ls, true, g.R.Intn(3))
	// something that cannot simply be replaced: a directory (with content) where
	// the source has a symlink or a file: the transfer returns an error, and
	// must not leave temporary names behind
	for _, l := range ls {
		if (l.Entry.Type == "l" || l.Entry.Type == "f") && l.Name != "." && sc.Dst.Find(l.Name) == nil && g.R.Intn(8) == 0 {
			sc.Dst.Entries = append(sc.Dst.Entries, fstree.Entry{Path: fstree.Name(l.Name + "/occupied"), Type: "f", Perm: 0o644, Mtime: 1_400_000_000, Content: g.Content(10)})
		}
	}
	// destination files with a second hard link (an unlisted twin next to them):
	// replacing the listed path must still be a rename, never a write into the
	// shared inode
	for _, d := range append([]fstree.Entry(nil), sc.Dst.Entries...) {
		if d.Type == "f" && d.Content != nil && d.HardlinkTo == "" && g.R.Intn(6) == 0 {
			twin := d
			twin.Path = fstree.Name(filepath.Join(filepath.Dir(string(d.Path)), ".twin-"+filepath.Base(string(d.Path))))
			twin.HardlinkTo = d.Path
			if len(filepath.Base(string(twin.Path))) < 200 && sc.Dst.Find(string(twin.Path)) == nil {
				sc.Dst.Entries = append(sc.Dst.Entries, twin)
			}
		}
	}
	// replaced symlinks: half of the source symlinks meet a symlink with another target
	for _, l := range ls {
		if l.Entry.Type == "l" && l.Name != "." && sc.Dst.Find(l.Name) == nil && sc.Dst.Find(l.Name+"/occupied") == nil && g.R.Bool() {
			blocked := false
			for _, d := range sc.Dst.Entries {
				if d.Type != "d" && strings.HasPrefix(l.Name, string(d.Path)+"/") {
					blocked = true
				}
			}
			if !blocked {
				sc.Dst.Entries = append(sc.Dst.Entries, fstree.Entry{Path: fstree.Name(l.Name), Type: "l", Perm: 0o777, Mtime: 1_400_000_000, Target: fstree.Name("old-target-" + g.NameComponent(true))})
			}
		}
	}
	min := 0
	if arr == "A1" || arr == "A2" {
		min = 12
	}
	sc.Tr = g.TransportFor(min, 2*treeBytes(&sc.Src)+treeBytes(&sc.Dst))
	out := &C04Scenario{Sync: sc}
	n := 6
	if tier == "thorough" {
		n = 30
	}
	for i := 0; i < n; i++ {
		f := C04Fault{Kind: "cut", Dir: g.R.Intn(2), Frac: 1 + g.R.Intn(999)}
		if g.R.Intn(3) == 0 {
			f.Kind = "freeze"
			// freeze the receiving side while it reads the data direction
			if arr == "A1" || arr == "A3p" {
				f.Dir = 1
			} else {
				f.Dir = 0
			}
		}
		out.Faults = append(out.Faults, f)
	}
	return out
}

// throughSymlink reports whether a proper parent component of name is a symlink.
func throughSymlink(root, name string) bool {
	dir := filepath.Dir(name)
	for dir != "." && dir != "/" && dir != "" {
		if fi, err := os.Lstat(filepath.Join(root, dir)); err == nil && fi.Mode()&os.ModeSymlink != 0 {
			return true
		}
		dir = filepath.Dir(dir)
	}
	return false
}

// atomicityChecker evaluates the C04 invariant on the destination.
type atomicityChecker struct {
	root   string
	before fstree.Snap
	want   map[string]fstree.Node // listed name → source node (new state)
	opts   model.Opts
	cache  map[string]fstree.Node
	checks int
	rehash int
}

func (a *atomicityChecker) check() error {
	for name, nw := range a.want {
		if name == "." {
			continue
		}
		a.checks++
		p := filepath.Join(a.root, name)
		if throughSymlink(a.root, name) {
			// a parent component is (still) a symlink in the way of a directory:
			// what lstat would show is another object reached through it, not
			// the listed path, which does not exist yet
			continue
		}
		cur, err := fstree.LstatNode(p, false)
		old, hadOld := a.before[name]
		if err != nil {
			if !os.IsNotExist(err) {
				continue // e.g. ENOTDIR while a parent is being replaced
			}
			if !hadOld {
				continue
			}
			if old.Type != nw.Type {
				continue // cross-type replacement: unlink first, create afterwards
			}
			// the parent may have been replaced (file in the way of a directory)
			if parentReplaced(a.before, a.want, name) {
				continue
			}
			return fmt.Errorf("path %q existed (%s) and is listed as %s, but is absent at this instant", name, old.Type, nw.Type)
		}
		switch cur.Type {
		case "f":
			if c, ok := a.cache[name]; ok && c.Ino == cur.Ino && c.Size == cur.Size && c.Mtime == cur.Mtime && c.MtimeNs == cur.MtimeNs {
				continue
			}
			full, err := fstree.LstatNode(p, true)
			if err != nil {
				continue
			}
			a.rehash++
			okOld := hadOld && old.Type == "f" && old.Sum == full.Sum && old.Size == full.Size
			okNew := nw.Type == "f" && nw.Sum == full.Sum && nw.Size == full.Size
			if !okOld && !okNew {
				return fmt.Errorf("path %q holds %d bytes (sum %s) which is neither its previous content (%v) nor the complete new content (%s/%d): partial or mixed file", name, full.Size, full.Sum, describe(old, hadOld), nw.Sum, nw.Size)
			}
			a.cache[name] = full
		case "l":
			okOld := hadOld && old.Type == "l" && old.Target == cur.Target
			okNew := nw.Type == "l" && nw.Target == cur.Target
			if !okOld && !okNew {
				return fmt.Errorf("symlink %q points to %q which is neither the old (%v) nor the new target %q", name, cur.Target, describe(old, hadOld), nw.Target)
			}
		}
	}
	return nil
}

func parentReplaced(before fstree.Snap, want map[string]fstree.Node, name string) bool {
	for d := filepath.Dir(name); d != "." && d != "/"; d = filepath.Dir(d) {
		if b, ok := before[d]; ok && b.Type != "d" {
			return true
		}
		if w, ok := want[d]; ok && w.Type != "d" {
			return true
		}
	}
	return false
}

func describe(n fstree.Node, ok bool) string {
	if !ok {
		return "absent"
	}
	return fmt.Sprintf("%s %s/%d %q", n.Type, n.Sum, n.Size, n.Target)
}

// leftovers lists names under root that are neither in before nor listed.
func leftovers(root string, before fstree.Snap, want map[string]fstree.Node) []string {
	after, _ := fstree.Snapshot(root)
	var out []string
	for p := range after {
		if _, ok := before[p]; ok {
			continue
		}
		if _, ok := want[p]; ok {
			continue
		}
		// directories created on the way to listed entries are fine
		if after[p].Type == "d" {
			covered := false
			for w := range want {
				if strings.HasPrefix(w, p+"/") {
					covered = true
					break
				}
			}
			if covered {
				continue
			}
		}
		out = append(out, p)
	}
	sort.Strings(out)
	return out
}

func (c04) Run(t *testing.T, scenario any, job *Job, res *Result) {
	sc := scenario.(*C04Scenario)
	lay := NewLayout(job.Scratch)
	droot := destRootFor(&sc.Sync, lay)
	o := model.ParseOpts(sc.Sync.Opts)

	mk := func() (*atomicityChecker, error) {
		if err := prepare(&sc.Sync, lay); err != nil {
			return nil, err
		}
		srcSnap, err := fstree.Snapshot(lay.Src)
		if err != nil {
			return nil, err
		}
		before, _ := fstree.Snapshot(droot)
		want := map[string]fstree.Node{}
		for _, l := range model.Select(srcSnap, modelArgs(sc.Sync.Sources), filepath.Base(lay.Src), sc.Sync.Arr == "A1", o) {
			if model.WouldCreate(l.Node, o) {
				want[l.Name] = l.Node
			}
		}
		return &atomicityChecker{root: droot, before: before, want: want, opts: o, cache: map[string]fstree.Node{}}, nil
	}

	// 1. fault-free run: every scheduler step is a checked crash point
	ac, err := mk()
	if err != nil {
		res.Invalid = err.Error()
		return
	}
	wt, werr := fstree.NewWatcher(droot)
	base := RunSyncSession(t, &sc.Sync, lay, SessionHooks{OnStep: func(step int) error { return ac.check() }})
	res.AddSession(base)
	if werr == nil {
		// the kernel's history of directory operations: a path that is replaced
		// by an entry of the same type must never be unlinked on the way
		evs := wt.Drain()
		wt.Close()
		res.Probe("inotify_events", len(evs))
		for _, ev := range evs {
			if ev.Op == "modify" {
				// new content reaches a listed path by rename only: a write (or a
				// truncation) through the final name is a window in which the path
				// holds a partial file, however short
				if nw, listed := ac.want[ev.Path]; listed && nw.Type == "f" {
					if old, had := ac.before[ev.Path]; had && old.Type == "f" {
						res.Violate("non-atomic", "written-in-place:"+receiverSide(sc.Sync.Arr), fmt.Sprintf("fault-free run: the kernel recorded a write to %q through its final name; it existed before and is listed as a regular file, so its new content must arrive by rename", ev.Path))
						setTape(&sc.Sync.Tr, base)
						return
					}
				}
				continue
			}
			if ev.Op != "delete" && ev.Op != "moved_from" {
				continue
			}
			nw, listed := ac.want[ev.Path]
			old, had := ac.before[ev.Path]
			if listed && had && old.Type == nw.Type && (nw.Type == "f" || nw.Type == "l") && !parentReplaced(ac.before, ac.want, ev.Path) && !ac.opts.Delete {
				res.Violate("non-atomic", "unlinked-before-replacement:"+nw.Type+":"+receiverSide(sc.Sync.Arr), fmt.Sprintf("fault-free run: the kernel recorded %s of %q, which existed (%s) and is listed as %s: between that instant and the creation of the new entry the path was absent", ev.Op, ev.Path, old.Type, nw.Type))
				setTape(&sc.Sync.Tr, base)
				return
			}
		}
	}
	res.Probe("crash_points_checked", base.Stats.Steps)
	res.Probe("path_checks", ac.checks)
	res.Probe("rehashes", ac.rehash)
	if base.Outcome == kernel.HookStop {
		res.Violate("non-atomic", "partial-or-mixed:"+receiverSide(sc.Sync.Arr), fmt.Sprintf("fault-free run, step %d: %v", base.Stats.Steps, base.HookErr))
		setTape(&sc.Sync.Tr, base)
		return
	}
	if base.Outcome == kernel.Finished && (base.ClientErr != nil || base.ServerErr != nil) && base.Panic == "" {
		// the transfer itself returned an error (e.g. something in the way that
		// cannot be replaced): success is not this check's business, but the
		// second sentence of the property is: no temporary file may stay behind
		if err := ac.check(); err != nil {
			res.Violate("non-atomic", "final-state-after-error:"+receiverSide(sc.Sync.Arr), "after a fault-free run that returned an error: "+err.Error())
			return
		}
		if l := leftovers(droot, ac.before, ac.want); len(l) > 0 {
			recvErr := base.ClientErr
			if sc.Sync.Arr == "A2" || sc.Sync.Arr == "A3s" {
				recvErr = base.ServerErr
			}
			res.Violate("temp-leftover", "temp-leftover-after-error-return:"+receiverSide(sc.Sync.Arr)+generatorFirstTag(recvErr, droot, l), fmt.Sprintf("the session returned client=%v server=%v; after the connection was closed these non-listed entries remain in the destination: %q", base.ClientErr, base.ServerErr, l))
			setTape(&sc.Sync.Tr, base)
			return
		}
		res.Probe("error_returns_checked_for_leftovers", 1)
		res.NonTrivial = true
		return
	}
	if base.Outcome != kernel.Finished || base.ClientErr != nil {
		// outside the domain of this check (C01/C18 judge success); nothing to enumerate
		res.Invalid = fmt.Sprintf("fault-free session did not succeed: %v %v", base.Outcome, base.ClientErr)
		return
	}
	if err := ac.check(); err != nil {
		res.Violate("non-atomic", "final-state:"+receiverSide(sc.Sync.Arr), "after fault-free run: "+err.Error())
		return
	}
	nrepl := 0
	for name, w := range ac.want {
		if b, ok := ac.before[name]; ok && w.Type == "f" && b.Type == "f" && b.Sum != w.Sum {
			nrepl++
		}
	}
	res.Probe("replaced_files", nrepl)
	res.NonTrivial = nrepl > 0 && base.Stats.Steps > 20

	// 2. faults
	for fi := range sc.Faults {
		f := &sc.Faults[fi]
		total := base.BytesCS
		if f.Dir == 1 {
			total = base.BytesSC
		}
		at := f.At
		if at == 0 && f.Frac > 0 {
			at = total * int64(f.Frac) / 1000
		}
		if at > total {
			at = total
		}
		ac, err := mk()
		if err != nil {
			res.Inconclusive = err.Error()
			return
		}
		run := sc.Sync
		run.Faults = []Fault{{Kind: f.Kind, Dir: f.Dir, At: at}}
		var frozenErr error
		fwt, fwerr := fstree.NewWatcher(droot)
		s := RunSyncSession(t, &run, lay, SessionHooks{
			OnStep:      func(step int) error { return ac.check() },
			AfterFrozen: func() { frozenErr = ac.check() },
		})
		res.AddSession(s)
		res.Probe("crash_points_checked", s.Stats.Steps)
		fail := func(kind, sig, detail string) {
			res.Violate(kind, sig, fmt.Sprintf("fault %s dir=%d at byte %d of %d: %s\noutcome=%v client=%v (done %v) server=%v (done %v)\nclient log: %s\nserver log: %s", f.Kind, f.Dir, at, total, detail,
				s.Outcome, s.ClientErr, s.ClientDone, s.ServerErr, s.ServerDone, tail(s.ClientStderr, 500), tail(s.ServerStderr, 900)))
			f.At, f.Frac = at, 0
			sc.Faults = []C04Fault{*f}
			sc.Sync.Tr.Tape = nil
			if len(s.Tape) <= 300000 {
				sc.Sync.Tr.Tape = s.Tape
			}
		}
		if fwerr == nil {
			evs := fwt.Drain()
			fwt.Close()
			res.Probe("inotify_events", len(evs))
			for _, ev := range evs {
				if ev.Op != "delete" && ev.Op != "moved_from" {
					continue
				}
				nw, listed := ac.want[ev.Path]
				old, had := ac.before[ev.Path]
				if listed && had && old.Type == nw.Type && (nw.Type == "f" || nw.Type == "l") && !parentReplaced(ac.before, ac.want, ev.Path) && !ac.opts.Delete {
					fail("non-atomic", "unlinked-before-replacement:"+nw.Type+":"+receiverSide(sc.Sync.Arr), fmt.Sprintf("the kernel recorded %s of %q, which existed (%s) and is listed as %s", ev.Op, ev.Path, old.Type, nw.Type))
					return
				}
			}
		}
		if s.Outcome == kernel.HookStop {
			fail("non-atomic", "partial-or-mixed:"+receiverSide(sc.Sync.Arr), fmt.Sprintf("step %d: %v", s.Stats.Steps, s.HookErr))
			return
		}
		if frozenErr != nil {
			fail("non-atomic", "partial-or-mixed-at-freeze:"+receiverSide(sc.Sync.Arr), frozenErr.Error())
			return
		}
		if s.Outcome == kernel.Deadlock {
			fail("deadlock", "deadlock-after-"+f.Kind, s.Pending)
			return
		}
		if s.Panic != "" {
			fail("panic", panicSignature(s.Panic), s.Panic)
			return
		}
		// final state (after shutdown all goroutines have finished)
		if err := ac.check(); err != nil {
			fail("non-atomic", "final-state-after-"+f.Kind+":"+receiverSide(sc.Sync.Arr), err.Error())
			return
		}
		if f.Kind == "cut" && s.CutFired {
			// error return (not a crash): temporary files must be gone
			recvErr := s.ClientErr
			if sc.Sync.Arr == "A2" || sc.Sync.Arr == "A3s" {
				recvErr = s.ServerErr
			}
			if l := leftovers(droot, ac.before, ac.want); len(l) > 0 {
				tag := generatorFirstTag(recvErr, droot, l)
				fail("temp-leftover", "temp-leftover:"+receiverSide(sc.Sync.Arr)+tag, fmt.Sprintf("receiver returned %v; after the connection was closed these non-listed entries remain in the destination: %q", recvErr, l))
				return
			}
			res.Probe("cut_runs_checked_for_leftovers", 1)
		}
	}
	res.Sample = map[string]any{"arr": sc.Sync.Arr, "opts": sc.Sync.Opts, "src_entries": len(sc.Sync.Src.Entries), "dst_entries": len(sc.Sync.Dst.Entries),
		"replaced_files": nrepl, "faults": len(sc.Faults), "fault_free_steps": base.Stats.Steps, "bytes_cs": base.BytesCS, "bytes_sc": base.BytesSC}
}

func receiverSide(arr string) string {
	if arr == "A2" || arr == "A3s" {
		return "server-receiver"
	}
	return "client-receiver"
}

// generatorFirstTag: the receiving side has two goroutines; when the GENERATOR
// goroutine fails first (a write error, or something in the way that cannot be
// removed or created) while the receiving goroutine is inside a file, the
// recorded finding applies (Do returns at once, the root is closed, the
// pending file's cleanup fails).
func generatorFirstTag(recvErr error, root string, left []string) string {
	if recvErr == nil {
		return ""
	}
	// the recorded finding leaves the pending REGULAR temporary file of the
	// receive in flight; any other kind of leftover is something else
	for _, p := range left {
		if n, err := fstree.LstatNode(filepath.Join(root, p), false); err != nil || n.Type != "f" {
			return ""
		}
	}
	e := recvErr.Error()
	for _, m := range []string{"write ", "unlinking to make room", "mkdir", "symlink", "Open(parent", "renameat", "mknod", "mkfifo"} {
		if strings.Contains(e, m) {
			return ":generator-failed-first"
		}
	}
	return ""
}
