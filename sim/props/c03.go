package props

import (
	"bytes"
	"context"
	"encoding/binary"
	"fmt"
	"os"
	"path/filepath"
	"testing"

	"github.com/gokrazy/rsync/rsyncclient"

	"verif/sim/fstree"
	"verif/sim/kernel"
	"verif/sim/model"
	"verif/sim/refproto"
)

// C03: only data that passes the whole-file checksum ever replaces a
// destination file.

type C03Fault struct {
	Kind  string `json:"kind"`            // flip | mutate
	Class string `json:"class,omitempty"` // token literal trailer
	Pick  int    `json:"pick"`            // which position of that class (modulo the number available)
	Bit   int    `json:"bit"`
	// resolved / explicit addressing (set when a violation is reported)
	RawOff int64 `json:"raw_off,omitempty"`
	// mutate: fraction (per mille) of the fault-free step count at which an
	// external writer modifies a basis file
	StepFrac int `json:"step_frac,omitempty"`
}

type C03Scenario struct {
	Mode   string       `json:"mode"` // wire (real sender and receiver, faults in flight) | script (reference sender lies consistently)
	Sync   SyncScenario `json:"sync"`
	Faults []C03Fault   `json:"c03_faults,omitempty"`
	// script mode
	Files      []C02File `json:"files,omitempty"`
	ScriptSeed uint64    `json:"script_seed,omitempty"`
}

type c03 struct{}

func init() { Register("C03", c03{}) }

func (c03) NewScenario() any { return &C03Scenario{} }

func (c03) Generate(seed uint64, tier string, index int) any {
	g := NewGen(kernel.Derive(seed, "workload"), tier == "thorough")
	if index%5 == 4 {
		sc := &C03Scenario{Mode: "script", ScriptSeed: g.R.Uint64() >> 1}
		n := 1 + g.R.Intn(3)
		for i := 0; i < n; i++ {
			sz := 700*int64(2+g.R.Intn(30)) + int64(g.R.Intn(700))
			f := C02File{Name: fmt.Sprintf("s%d", i), Basis: &fstree.Content{Class: "random", Seed: g.R.Uint64() >> 1, Size: sz}}
			if g.R.Intn(3) == 0 {
				// destination absent: the receiver asks for the whole file with an
				// all-zero checksum header, which a protocol-27 sender echoes
				f.NoBasis = true
			}
			sc.Files = append(sc.Files, f)
		}
		sc.Sync.Tr = g.TransportFor(12, 200<<10)
		return sc
	}
	arr := []string{"A1", "A2", "A3p", "A3s"}[g.R.Intn(4)]
	sc := &C03Scenario{Mode: "wire"}
	s := SyncScenario{Arr: arr, Opts: []string{"-rt"}, Sources: []SrcArg{{Path: "", Slash: true}}}
	// three file shapes: whole-file (no basis), pure delta (basis = permuted blocks), mixed (edited basis)
	n := 1 + g.R.Intn(3)
	for i := 0; i < n; i++ {
		sz := int64(1 + g.R.Intn(6000))
		if g.R.Intn(3) == 0 {
			sz = 700*int64(2+g.R.Intn(12)) + int64(g.R.Intn(3))*int64(g.R.Intn(699))
		}
		c := &fstree.Content{Class: []string{"random", "text", "periodic"}[g.R.Intn(3)], Seed: g.R.Uint64() >> 1, Size: sz, Period: 700}
		name := fmt.Sprintf("f%d", i)
		s.Src.Entries = append(s.Src.Entries, fstree.Entry{Path: fstree.Name(name), Type: "f", Perm: 0o644, Mtime: 1_600_000_000, Content: c})
		switch g.R.Intn(3) {
		case 0: // whole file
		case 1: // mixed
			s.Dst.Entries = append(s.Dst.Entries, fstree.Entry{Path: fstree.Name(name), Type: "f", Perm: 0o644, Mtime: 1_500_000_000, Content: g.Edited(c)})
		default: // pure delta: the same blocks in another order
			d := *c
			if sz >= 2800 {
				d.Edits = []fstree.Edit{{Kind: "swap", Off: 0, Off2: 1400, Len: 700}}
			} else {
				d.Edits = []fstree.Edit{{Kind: "app", Len: 1, Seed: 5}}
			}
			s.Dst.Entries = append(s.Dst.Entries, fstree.Entry{Path: fstree.Name(name), Type: "f", Perm: 0o644, Mtime: 1_500_000_000, Content: &d})
		}
	}
	min := 0
	if arr == "A1" || arr == "A2" {
		min = 12
	}
	s.Tr = g.TransportFor(min, 40<<10)
	sc.Sync = s
	nf := 10
	if tier == "thorough" {
		nf = 30
	}
	for i := 0; i < nf; i++ {
		f := C03Fault{Kind: "flip", Class: []string{"token", "literal", "literal", "trailer"}[g.R.Intn(4)], Pick: g.R.Intn(1 << 20), Bit: g.R.Intn(8)}
		if f.Class == "token" {
			f.Bit = []int{0, 1, 2, 3, 4, 5, 6, 7, 8, 9, 10, 12, 16, 20, 31}[g.R.Intn(15)]
		}
		if g.R.Intn(8) == 0 {
			f = C03Fault{Kind: "mutate", Pick: g.R.Intn(1 << 20), StepFrac: 1 + g.R.Intn(999)}
		} else if g.R.Intn(8) == 0 {
			f = C03Fault{Kind: "shrink", Pick: g.R.Intn(1 << 20), StepFrac: 1 + g.R.Intn(600)}
		}
		sc.Faults = append(sc.Faults, f)
	}
	return sc
}

// rawOffsetOf maps an offset in the sender's stream to an offset in the raw
// wire bytes. For multiplexed streams the frames after preamble are walked.
func rawOffsetOf(wire []byte, preamble int, mux bool, streamOff int64) int64 {
	if !mux {
		return int64(preamble) + streamOff
	}
	off := preamble
	var seen int64
	for off+4 <= len(wire) {
		h := binary.LittleEndian.Uint32(wire[off:])
		tag := int(h>>24) - refproto.MplexBase
		l := int(h & 0xffffff)
		if tag == refproto.TagData {
			if streamOff < seen+int64(l) {
				return int64(off+4) + (streamOff - seen)
			}
			seen += int64(l)
		}
		off += 4 + l
	}
	return -1
}

func (c03) Run(t *testing.T, scenario any, job *Job, res *Result) {
	sc := scenario.(*C03Scenario)
	if sc.Mode == "script" {
		c03Script(t, sc, job, res)
		return
	}
	lay := NewLayout(job.Scratch)
	if sc.Sync.Arr == "A4" {
		res.Invalid = "no wire in A4"
		return
	}
	o := model.ParseOpts(sc.Sync.Opts)
	base, err := semRun(t, &sc.Sync, lay, SessionHooks{TapWire: true, MaxWire: 16 << 20})
	if err != nil {
		res.Invalid = err.Error()
		return
	}
	res.AddSession(base.S)
	if base.S.Outcome != kernel.Finished || base.S.ClientErr != nil || base.S.ServerErr != nil {
		res.Invalid = fmt.Sprintf("fault-free session does not succeed: %v %v %v", base.S.Outcome, base.S.ClientErr, base.S.ServerErr)
		return
	}
	ps, err := parseSenderSide(&sc.Sync, base.S)
	if err != nil {
		res.Invalid = "baseline stream not parsable: " + err.Error()
		return
	}
	pull := sc.Sync.Arr == "A1" || sc.Sync.Arr == "A3p"
	wire := base.S.WireCS
	dir := 0
	if pull {
		wire, dir = base.S.WireSC, 1
	}
	// positions by class (stream offsets relative to the multiplexed part)
	type pos struct {
		off  int64
		file string
	}
	classes := map[string][]pos{}
	for _, rp := range ps.Replies {
		name := ps.Sorted[rp.Idx].Name
		for _, to := range rp.TokOffs {
			for b := int64(0); b < 4; b++ {
				classes["token"] = append(classes["token"], pos{to.Off + b - ps.MuxBase, name})
			}
			for b := int64(0); b < int64(to.Lit); b++ {
				classes["literal"] = append(classes["literal"], pos{to.Off + 4 + b - ps.MuxBase, name})
			}
		}
		for b := int64(0); b < 16; b++ {
			classes["trailer"] = append(classes["trailer"], pos{rp.OffSum + b - ps.MuxBase, name})
		}
	}
	res.Probe("replies_in_baseline", len(ps.Replies))
	listed := listedFor(&sc.Sync, lay, base.Src)
	srcSum := map[string]fstree.Node{}
	for _, l := range listed {
		if l.Node.Type == "f" {
			srcSum[l.Name] = l.Node
		}
	}
	baseSteps := base.S.Stats.Steps
	nontriv := false
	for fi := range sc.Faults {
		f := &sc.Faults[fi]
		if err := prepare(&sc.Sync, lay); err != nil {
			res.Inconclusive = err.Error()
			return
		}
		root := destRootFor(&sc.Sync, lay)
		before, _ := fstree.Snapshot(root)
		run := sc.Sync
		hooks := SessionHooks{}
		desc := ""
		mutated := map[string]string{} // name → content hash after the external write
		shrunk := map[string][]byte{}  // name → source content before an external truncation
		switch f.Kind {
		case "flip":
			raw := f.RawOff
			if raw == 0 {
				ps := classes[f.Class]
				if len(ps) == 0 {
					continue
				}
				p := ps[f.Pick%len(ps)]
				if f.Class == "token" {
					// token words are little endian: bit b of the word lives in byte b/8
					p = ps[(f.Pick%(len(ps)/4))*4+f.Bit/8]
				}
				raw = rawOffsetOf(wire, psPreamble(&sc.Sync, wire), sc.Sync.Arr == "A1" || sc.Sync.Arr == "A3p", p.off)
				desc = fmt.Sprintf("bit %d of %s byte at stream offset %d (file %q), raw wire offset %d", f.Bit%8, f.Class, p.off, p.file, raw)
			} else {
				desc = fmt.Sprintf("bit %d at raw wire offset %d", f.Bit%8, raw)
			}
			if raw < 0 {
				continue
			}
			run.Faults = []Fault{{Kind: "flip", Dir: dir, At: raw, Bit: f.Bit % 8}}
			f.RawOff = raw
		case "mutate":
			// an external process rewrites a basis file while the session runs
			var bases []string
			for _, e := range sc.Sync.Dst.Entries {
				if e.Type == "f" && e.Content != nil && len(e.Content.Bytes()) > 0 {
					bases = append(bases, string(e.Path))
				}
			}
			if len(bases) == 0 {
				continue
			}
			victim := bases[f.Pick%len(bases)]
			at := baseSteps * f.StepFrac / 1000
			done := false
			vpath := filepath.Join(root, victim)
			ino0 := before[victim].Ino
			hooks.OnStep = func(step int) error {
				if done || step < at {
					return nil
				}
				done = true
				n, err := fstree.LstatNode(vpath, false)
				if err != nil || n.Ino != ino0 {
					return nil // already replaced: nothing to mutate
				}
				b, err := os.ReadFile(vpath)
				if err != nil || len(b) == 0 {
					return nil
				}
				for i := 0; i < len(b); i += 97 {
					b[i] ^= 0xa5
				}
				fh, err := os.OpenFile(vpath, os.O_WRONLY, 0)
				if err != nil {
					return nil
				}
				fh.Write(b)
				fh.Close()
				mutated[victim] = fstree.HashBytes(b)
				res.Fault("basis_mutated", 1)
				return nil
			}
			desc = fmt.Sprintf("external writer modifies basis %q at step %d of ~%d", victim, at, baseSteps)
		case "shrink":
			// an external process truncates a SOURCE file while the session runs
			// (after it was listed with its old size, at best): whatever the
			// sender still reads and describes is what may be installed
			var srcs []string
			for _, e := range sc.Sync.Src.Entries {
				if e.Type == "f" && e.Content != nil && e.Content.Size > 300 {
					srcs = append(srcs, string(e.Path))
				}
			}
			if len(srcs) == 0 {
				continue
			}
			victim := srcs[f.Pick%len(srcs)]
			at := baseSteps * f.StepFrac / 1000
			done := false
			vpath := filepath.Join(lay.Src, victim)
			hooks.OnStep = func(step int) error {
				if done || step < at {
					return nil
				}
				done = true
				b, err := os.ReadFile(vpath)
				if err != nil || len(b) < 3 {
					return nil
				}
				shrunk[victim] = b
				b = b[:len(b)/3]
				if err := os.Truncate(vpath, int64(len(b))); err != nil {
					return nil
				}
				mutated[victim] = fstree.HashBytes(b)
				res.Fault("source_truncated", 1)
				return nil
			}
			desc = fmt.Sprintf("external writer truncates source %q to a third at step %d of ~%d", victim, at, baseSteps)
		default:
			continue
		}
		s := RunSyncSession(t, &run, lay, hooks)
		res.AddSession(s)
		after, _ := fstree.Snapshot(root)
		fail := func(kind, sig, detail string) {
			res.Violate(kind, sig+":"+receiverSide(sc.Sync.Arr), fmt.Sprintf("fault: %s\n%s\nclient: %v server: %v", desc, detail, s.ClientErr, s.ServerErr))
			sc.Faults = []C03Fault{*f}
			sc.Sync.Tr.Tape = nil
			if len(s.Tape) <= 300000 {
				sc.Sync.Tr.Tape = s.Tape
			}
		}
		if s.Panic != "" {
			fail("panic", panicSignature(s.Panic), s.Panic)
			return
		}
		if s.Outcome == kernel.Deadlock {
			// a damaged length field can leave both ends waiting for bytes that
			// never come: termination under damage is not this property
			res.Probe("damaged_stream_hangs", 1)
		}
		// success is what the user's process (the client) reports, whichever
		// side it plays: an error that only the server knows about is no report
		success := s.Outcome == kernel.Finished && s.ClientErr == nil
		for name, sn := range srcSum {
			a, ok := after[name]
			b, had := before[name]
			isNew := ok && a.Type == "f" && a.Sum == sn.Sum && a.Size == sn.Size
			isOld := (!ok && !had) || (ok && had && a.Type == b.Type && a.Sum == b.Sum && a.Size == b.Size)
			isMut := ok && mutated[name] != "" && a.Sum == mutated[name]
			if orig := shrunk[name]; !isMut && ok && orig != nil && a.Type == "f" {
				// the sender may have read more than the truncated third before the
				// truncation hit: any prefix of the old content it read and
				// described is a legitimate result
				if got, err := os.ReadFile(filepath.Join(root, name)); err == nil && len(got) >= len(orig)/3 && len(got) <= len(orig) && bytes.Equal(got, orig[:len(got)]) {
					isMut = true
				}
			}
			if !isNew && !isOld && !isMut {
				fail("corrupt-file-installed", "corrupt-installed", fmt.Sprintf("destination %q now holds %s/%d: neither its previous content (%s) nor the sender's (%s/%d)", name, a.Sum, a.Size, describe(b, had), sn.Sum, sn.Size))
				return
			}
			var bp *fstree.Node
			if had {
				bp = &b
			}
			if success && model.NeedsTransfer(sn, bp, o) && !isNew && !isMut {
				fail("damage-reported-as-success", "silent-stale", fmt.Sprintf("session reported success but %q was not updated to the sender's content", name))
				return
			}
		}
		if !success {
			res.Probe("faulted_runs_failed_cleanly", 1)
		} else {
			res.Probe("faulted_runs_succeeded_with_right_content", 1)
		}
		nontriv = true
	}
	res.NonTrivial = nontriv && len(ps.Replies) > 0
	res.Sample = map[string]any{"mode": "wire", "arr": sc.Sync.Arr, "files": len(sc.Sync.Src.Entries), "faults": len(sc.Faults), "positions": map[string]int{"token": len(classes["token"]), "literal": len(classes["literal"]), "trailer": len(classes["trailer"])}}
}

// psPreamble returns the number of raw bytes before the sender's stream part
// that offsets refer to (for multiplexed streams: before the first frame).
func psPreamble(sc *SyncScenario, wire []byte) int {
	switch sc.Arr {
	case "A1":
		idx := bytes.Index(wire, []byte("@RSYNCD: OK\n"))
		return idx + len("@RSYNCD: OK\n") + 4
	case "A3p":
		return 8
	case "A2":
		// greeting, module, args, empty line
		n := 0
		lines := 0
		for n < len(wire) {
			i := bytes.IndexByte(wire[n:], '\n')
			if i < 0 {
				break
			}
			line := wire[n : n+i]
			n += i + 1
			lines++
			if lines > 2 && len(line) == 0 {
				break
			}
		}
		return n
	case "A3s":
		return 4
	}
	return 0
}

func c03Script(t *testing.T, sc *C03Scenario, job *Job, res *Result) {
	lay := NewLayout(job.Scratch)
	os.MkdirAll(lay.Dst, 0755)
	if len(sc.Files) == 0 {
		res.Invalid = "no files"
		return
	}
	entries := []refproto.Entry{{Name: ".", Mode: refproto.SIFDIR | 0755, Mtime: 1500000000, Size: 4096, Flags: refproto.XTopDir}}
	byName := map[string]*C02File{}
	for i := range sc.Files {
		f := &sc.Files[i]
		if f.Basis == nil || filepath.Base(f.Name) != f.Name || byName[f.Name] != nil {
			res.Invalid = "file"
			return
		}
		byName[f.Name] = f
		if !f.NoBasis {
			os.WriteFile(filepath.Join(lay.Dst, f.Name), f.basis(), 0644)
		}
		entries = append(entries, refproto.Entry{Name: f.Name, Mode: refproto.SIFREG | 0644, Mtime: 1400000000, Size: int64(len(f.basis())) + 7})
	}
	before, _ := fstree.Snapshot(lay.Dst)
	rng := kernel.NewRNG(sc.ScriptSeed)
	cerr := &lockedBuf{max: 1 << 18}
	client, err := rsyncclient.New([]string{"-rt"}, rsyncclient.WithStderr(cerr), rsyncclient.DontRestrict())
	if err != nil {
		res.Inconclusive = err.Error()
		return
	}
	// the sender claims (trailer) the honest file, but describes other bytes
	honest := map[string][]byte{}
	described := map[string][]byte{}
	kinds := map[string]string{}
	out := RunWithRef(t, &RefRun{Tr: sc.Sync.Tr, GuardReal: true,
		Real: func(ctx context.Context, end *kernel.End) error {
			_, err := client.RunDaemon(ctx, end, "mod/", []string{lay.Dst})
			return err
		},
		Ref: func(w *refproto.Wire) error {
			_, err := refproto.Send(w, refproto.SendOpts{Server: true, Daemon: true, Seed: int32(sc.ScriptSeed), Entries: entries, OptsFromArgs: true,
				Answer: func(idx int, e *refproto.Entry, _ []byte, rq *refproto.Request, seed int32) (refproto.SumHead, []refproto.Tok, [16]byte) {
					basis := byName[e.Name].basis()
					h := rq.Head
					if byName[e.Name].NoBasis {
						basis = nil
					}
					// honest stream: blocks of the basis in order with a literal in the middle and at the end
					var toks []refproto.Tok
					var H []byte
					if h.Count == 0 {
						// whole file: three literal runs
						for i := 0; i < 3; i++ {
							lit := []byte(fmt.Sprintf("<<whole-file run %d/%d>>", i, rng.Intn(1000)))
							toks = append(toks, refproto.Tok{Lit: lit})
							H = append(H, lit...)
						}
					}
					for b := int32(0); b < h.Count; b++ {
						lo, hi := h.BlockRange(b)
						toks = append(toks, refproto.Tok{Block: b})
						H = append(H, basis[lo:hi]...)
						if b == h.Count/2 {
							lit := []byte(fmt.Sprintf("<<literal run %d>>", rng.Intn(1000)))
							toks = append(toks, refproto.Tok{Lit: lit})
							H = append(H, lit...)
						}
					}
					lit := []byte("the end")
					toks = append(toks, refproto.Tok{Lit: lit})
					H = append(H, lit...)
					honest[e.Name] = H
					// perturb
					p := append([]refproto.Tok(nil), toks...)
					kind := []string{"other-block", "swap-literals", "dup-literal", "drop-token", "truncate", "flip-literal"}[rng.Intn(6)]
					if h.Count == 0 && kind == "other-block" {
						kind = "flip-literal"
					}
					switch kind {
					case "flip-literal":
						for i := range p {
							if p[i].Lit != nil {
								l := append([]byte(nil), p[i].Lit...)
								l[rng.Intn(len(l))] ^= byte(1 << uint(rng.Intn(8)))
								p[i] = refproto.Tok{Lit: l}
								break
							}
						}
					case "other-block":
						if h.Count >= 2 {
							i := rng.Intn(len(p))
							for p[i].Lit != nil {
								i = (i + 1) % len(p)
							}
							p[i] = refproto.Tok{Block: (p[i].Block + 1 + int32(rng.Intn(int(h.Count-1)))) % h.Count}
						}
					case "swap-literals":
						var li []int
						for i := range p {
							if p[i].Lit != nil {
								li = append(li, i)
							}
						}
						if len(li) >= 2 {
							p[li[0]], p[li[1]] = p[li[1]], p[li[0]]
						}
					case "dup-literal":
						p = append(p, refproto.Tok{Lit: lit})
					case "drop-token":
						i := rng.Intn(len(p))
						p = append(p[:i:i], p[i+1:]...)
					case "truncate":
						p = p[:len(p)/2]
					}
					kinds[e.Name] = kind
					rp := refproto.Reply{Head: h, Toks: p}
					D, _ := rp.Apply(basis)
					described[e.Name] = D
					return h, p, refproto.FileSum(H, seed) // the TRUE trailer
				}})
			return err
		}})
	res.AddRef(out)
	after, _ := fstree.Snapshot(lay.Dst)
	if out.Panic != "" {
		res.Violate("panic", panicSignature(out.Panic), out.Panic)
		return
	}
	nbad := 0
	for name, H := range honest {
		D := described[name]
		a := after[name]
		b := before[name]
		same := bytes.Equal(D, H)
		if !same {
			nbad++
			if a.Sum != b.Sum || a.Size != b.Size {
				res.Violate("corrupt-file-installed", "script-installed:"+kinds[name], fmt.Sprintf("file %q: the token stream (%s) denotes %s, the trailer is that of %s; the destination changed from %s to %s/%d (client err %v)", name, kinds[name], descBytes(D), descBytes(H), describe(b, true), a.Sum, a.Size, out.RealErr))
				return
			}
			if out.RealErr == nil && out.Outcome == kernel.Finished {
				res.Violate("damage-reported-as-success", "script-success:"+kinds[name], fmt.Sprintf("file %q: stream denotes other bytes than its trailer, yet the client reported success", name))
				return
			}
		}
		res.Probe("script_"+kinds[name], 1)
	}
	res.NonTrivial = nbad > 0
	res.Sample = map[string]any{"mode": "script", "files": len(sc.Files), "perturbations": kinds}
}
