package props

import (
	"bytes"
	"context"
	"fmt"
	"io/fs"
	"os"
	"path/filepath"
	"strings"
	"testing"
	"time"

	"github.com/gokrazy/rsync/rsyncclient"
	"github.com/gokrazy/rsync/rsyncd"

	"verif/sim/fstree"
	"verif/sim/kernel"
	"verif/sim/refproto"
)

// canaryRing builds the surroundings of a root directory: objects outside
// the root with unique content, and symlinks inside the root that point out.
type canaryRing struct {
	Area    string // parent of the root
	Root    string
	AbsDir  string // absolute-path canary directory
	Secrets map[string][]byte
	before  fstree.Snap
	absSnap fstree.Snap
}

func canaryContent(tag string) []byte {
	c := fstree.Content{Class: "random", Seed: kernel.Derive(0xca9a, tag), Size: 2000}
	return append([]byte("CANARY-SECRET-"+tag+"-"), c.Bytes()...)
}

func newCanaryRing(scratch, rootName string) (*canaryRing, error) {
	cr := &canaryRing{Area: filepath.Join(scratch, "area"), AbsDir: filepath.Join(scratch, "abs_canary"), Secrets: map[string][]byte{}}
	cr.Root = filepath.Join(cr.Area, rootName)
	for _, d := range []string{cr.Root, filepath.Join(cr.Area, "sibling_dir"), cr.AbsDir, filepath.Join(cr.Area, rootName+"_evil")} {
		if err := os.MkdirAll(d, 0755); err != nil {
			return nil, err
		}
	}
	files := map[string]string{
		filepath.Join(cr.Area, "sibling_file"):           "sibling_file",
		filepath.Join(cr.Area, "sibling_dir", "inner"):   "sibling_inner",
		filepath.Join(cr.AbsDir, "file"):                 "abs_file",
		filepath.Join(cr.Area, rootName+"_evil", "file"): "prefix_sibling",
	}
	for p, tag := range files {
		b := canaryContent(tag)
		cr.Secrets[tag] = b
		if err := os.WriteFile(p, b, 0640); err != nil {
			return nil, err
		}
	}
	// symlinks inside the root pointing out
	os.Symlink("../sibling_dir", filepath.Join(cr.Root, "link_out"))
	os.Symlink("../sibling_file", filepath.Join(cr.Root, "link_file"))
	os.Symlink(cr.AbsDir, filepath.Join(cr.Root, "link_abs"))
	os.Symlink("..", filepath.Join(cr.Root, "link_up"))
	os.Symlink("../"+rootName+"_evil", filepath.Join(cr.Root, "link_prefix"))
	// an absolute target that LOOKS as if it stayed inside the root but passes
	// through a symlink that leaves it
	os.Symlink(filepath.Join(cr.Root, "link_out", "inner"), filepath.Join(cr.Root, "link_abs_inside"))
	return cr, nil
}

func (cr *canaryRing) outsideSnap() (fstree.Snap, fstree.Snap) {
	area, _ := fstree.Snapshot(cr.Area)
	rootName := filepath.Base(cr.Root)
	out := fstree.Snap{}
	for p, n := range area {
		if p == rootName || strings.HasPrefix(p, rootName+"/") {
			continue
		}
		if p == "." {
			n.Mtime, n.MtimeNs = 0, 0 // the area directory's mtime changes when the root is created
		}
		out[p] = n
	}
	abs, _ := fstree.Snapshot(cr.AbsDir)
	return out, abs
}

func (cr *canaryRing) arm() { cr.before, cr.absSnap = cr.outsideSnap() }

var canaryFields = []string{"sum", "perm", "mtime", "mtime_ns", "target", "uid", "gid", "rdev"}

func (cr *canaryRing) check() error {
	a, b := cr.outsideSnap()
	if d := fstree.Diff(cr.before, a, canaryFields...); len(d) > 0 {
		return fmt.Errorf("objects next to the root changed: %v", d)
	}
	if d := fstree.Diff(cr.absSnap, b, canaryFields...); len(d) > 0 {
		return fmt.Errorf("absolute-path canary changed: %v", d)
	}
	return nil
}

// ---- C05 ------------------------------------------------------------------------------

type C05Entry struct {
	Name fstree.Name `json:"name"`
	Type string      `json:"type"` // f d l fifo sock chr
	Link fstree.Name `json:"link,omitempty"`
	Perm uint32      `json:"perm"`
	Size int64       `json:"size,omitempty"`
}

type C05Scenario struct {
	Side    string     `json:"side"`          // client (real pulling client, hostile server) | module (real writable module, hostile pushing client)
	Sub     string     `json:"sub,omitempty"` // module side: sub-directory argument of the upload
	Opts    []string   `json:"opts"`
	Entries []C05Entry `json:"entries"`
	// Unsolicited: the hostile sender also sends data for indices nobody
	// requested (block references + the checksum of an outside file).
	Unsolicited bool `json:"unsolicited,omitempty"`
	// Withhold: the hostile sender never answers requests for the name "trio"
	// (what was created in its place stays until the end of the session)
	Withhold bool      `json:"withhold,omitempty"`
	Tr       Transport `json:"tr"`
}

type c05 struct{}

func init() { Register("C05", c05{}) }

func (c05) NewScenario() any { return &C05Scenario{} }

// escape vectors; %A is replaced by the absolute canary directory
var c05Names = []string{
	"../sibling_file", "../sibling_dir/inner", "../sibling_dir/newfile", "../newfile", "../new_dir", "..", "../..",
	"%A/file", "%A/newfile", "%A", "/etc/verif-canary-should-not-exist",
	"link_out/inner", "link_out/newfile", "link_out", "link_file", "link_abs/file", "link_abs/newfile", "link_up/sibling_file", "link_up/newfile",
	"evil/inner", "evil/newfile", "evil/sub/newfile", "evil2/file", "evil_up/sibling_file",
	"a/../../sibling_file", "./../sibling_file", "a/b/../../../sibling_dir/inner", "dir/../../newfile", "dest/../../x",
	"../dest_evil/file", "../%R_evil/file", "plain", "dir/plain", "dir",
	// names that end in a slash (or in "/."): the last component is resolved
	// like a directory, i.e. THROUGH a symlink
	"link_out/", "link_abs/", "link_up/", "evil/", "evil2/", "link_out/.", "link_out//", "../sibling_dir/", "link_prefix/",
}

// upload sub-directory arguments (module side): plain, through symlinks that
// leave the module, dot-dot forms, and forms that resolve to a SIBLING whose
// path has the module path as a string prefix (dest -> dest_evil)
var c05Subs = []string{"", "", "sub/", "link_out/", "link_up/", "../", "../sibling_dir/", "link_abs/", "a/../../",
	"../dest_evil/", "../dest_evil", "link_prefix/", "link_prefix", "sub/../../dest_evil/", "link_up/dest_evil/"}

var c05Types = []string{"f", "d", "l", "fifo", "sock", "chr"}
var c05OptSets = [][]string{
	{"-r", "-D", "-l"}, {"-a"}, {"-r", "-l", "-p", "-t", "-o", "-g", "-D"}, {"-r", "-D", "-l", "--delete"}, {"-r"}, {"-r", "-c", "-I", "-D", "-l"},
}

// C05MatrixSize is the size of the directed matrix: escape vector x entry type
// x option set x side (one hostile entry per list).
func C05MatrixSize() int { return len(c05Names) * len(c05Types) * len(c05OptSets) * 2 }

func c05Directed(i int) *C05Scenario {
	i0 := i
	sc := &C05Scenario{Side: []string{"client", "module"}[i%2]}
	i /= 2
	sc.Opts = c05OptSets[i%len(c05OptSets)]
	i /= len(c05OptSets)
	typ := c05Types[i%len(c05Types)]
	i /= len(c05Types)
	name := c05Names[i%len(c05Names)]
	e := C05Entry{Name: fstree.Name(name), Type: typ, Perm: 0o751}
	switch typ {
	case "l":
		e.Link = "../sibling_file"
	case "f":
		e.Size = 900
	}
	switch {
	case strings.HasPrefix(name, "evil2/"):
		sc.Entries = append(sc.Entries, C05Entry{Name: "evil2", Type: "l", Link: "%A", Perm: 0o777})
	case strings.HasPrefix(name, "evil_up/"):
		sc.Entries = append(sc.Entries, C05Entry{Name: "evil_up", Type: "l", Link: "..", Perm: 0o777})
	case strings.HasPrefix(name, "evil/"):
		sc.Entries = append(sc.Entries, C05Entry{Name: "evil", Type: "l", Link: "../sibling_dir", Perm: 0o777})
	}
	sc.Entries = append(sc.Entries, e, C05Entry{Name: "zz_benign", Type: "f", Perm: 0o644, Size: 10})
	sc.Unsolicited = typ == "f" && (i0/3)%2 == 0
	if sc.Side == "module" {
		// the matrix index also walks through the sub-directory arguments
		sc.Sub = c05Subs[(i0/7)%len(c05Subs)]
	}
	sc.Tr = Transport{CapCS: kernel.Unbounded, CapSC: kernel.Unbounded, Chunk: kernel.ChunkMax, Bias: kernel.BiasCanonical}
	return sc
}

func (c05) Generate(seed uint64, tier string, index int) any {
	g := NewGen(kernel.Derive(seed, "workload"), tier == "thorough")
	if tier == "thorough" && index < C05MatrixSize() {
		return c05Directed(index) // the whole matrix, in order
	}
	if g.R.Intn(2) == 0 {
		return c05Directed(g.R.Intn(C05MatrixSize())) // a sampled cell of the matrix
	}
	sc := &C05Scenario{Side: []string{"client", "module"}[g.R.Intn(2)]}
	opts := []string{"-r"}
	for _, o := range []string{"-l", "-p", "-t", "-o", "-g", "-D", "--delete", "-I", "-c"} {
		p := 2
		if o == "--delete" {
			p = 0 // deleting first removes the pre-existing symlinks that many vectors go through
			if g.R.Intn(4) == 0 {
				p = 3
			}
		}
		if g.R.Intn(3) < p {
			opts = append(opts, o)
		}
	}
	sc.Opts = opts
	if sc.Side == "module" {
		sc.Sub = c05Subs[g.R.Intn(len(c05Subs))]
	}
	// one or two hostile entries per list (the receiver stops at the first
	// entry it refuses, so more would mostly go untested), preceded by the
	// symlinks the vector needs "sent earlier in the same list", plus benign ones
	nh := 1 + g.R.Intn(2)
	for i := 0; i < nh; i++ {
		e := C05Entry{Name: fstree.Name(c05Names[g.R.Intn(len(c05Names))]), Perm: uint32(g.R.Intn(0o1000))}
		e.Type = []string{"f", "f", "f", "d", "l", "fifo", "sock", "chr"}[g.R.Intn(8)]
		switch e.Type {
		case "l":
			e.Link = fstree.Name([]string{"../sibling_file", "%A/file", "harmless", "/etc/passwd"}[g.R.Intn(4)])
		case "f":
			e.Size = int64(g.R.Intn(3000))
		}
		n := string(e.Name)
		switch {
		case strings.HasPrefix(n, "evil2/"):
			sc.Entries = append(sc.Entries, C05Entry{Name: "evil2", Type: "l", Link: "%A", Perm: 0o777})
		case strings.HasPrefix(n, "evil_up/"):
			sc.Entries = append(sc.Entries, C05Entry{Name: "evil_up", Type: "l", Link: "..", Perm: 0o777})
		case strings.HasPrefix(n, "evil/"):
			sc.Entries = append(sc.Entries, C05Entry{Name: "evil", Type: "l", Link: "../sibling_dir", Perm: 0o777})
		}
		sc.Entries = append(sc.Entries, e)
	}
	for i := 0; i < g.R.Intn(3); i++ {
		sc.Entries = append(sc.Entries, C05Entry{Name: fstree.Name("benign_" + g.NameComponent(true)), Type: "f", Perm: 0o644, Size: int64(g.R.Intn(500))})
	}
	if g.R.Intn(5) == 0 {
		// the same name several times with different types: whatever is
		// remembered about the first (a directory to re-chmod at the end, a file
		// to receive) is later applied to what the last one made of the path
		kinds := [][]string{{"d", "f", "l"}, {"d", "f", "l"}, {"d", "l"}, {"f", "l"}, {"l", "d"}, {"d", "l", "f"}, {"l", "f"}}[g.R.Intn(7)]
		sc.Withhold = g.R.Bool() // the sender never delivers the data of the file among them
		for _, k := range kinds {
			e := C05Entry{Name: "trio", Type: k, Perm: []uint32{0o555, 0o500, 0o555, 0o700, 0o777, 0o644}[g.R.Intn(6)]}
			switch k {
			case "l":
				e.Link = fstree.Name([]string{"../sibling_dir", "%A", "../sibling_file", ".."}[g.R.Intn(4)])
			case "f":
				e.Size = int64(g.R.Intn(2000))
			}
			sc.Entries = append(sc.Entries, e)
		}
	}
	sc.Unsolicited = g.R.Intn(3) == 0
	sc.Tr = g.TransportFor(12, 64<<10)
	if sc.Tr.CapSC != kernel.Unbounded && sc.Tr.CapSC < 4096 {
		sc.Tr.CapSC = 4096
	}
	if sc.Tr.CapCS != kernel.Unbounded && sc.Tr.CapCS < 4096 {
		sc.Tr.CapCS = 4096
	}
	return sc
}

func (c05) Run(t *testing.T, scenario any, job *Job, res *Result) {
	sc := scenario.(*C05Scenario)
	if len(sc.Entries) == 0 {
		res.Invalid = "no entries"
		return
	}
	// A list that makes a name a fifo and then names something below it makes
	// the receiver open that fifo as a directory, and open(2) of a fifo blocks
	// until a writer turns up: a stall a hostile peer can cause in many ways,
	// outside the property (see DESIGN 9) and three minutes of watchdog here.
	for _, a := range sc.Entries {
		if a.Type != "fifo" {
			continue
		}
		an := filepath.Clean(string(a.Name))
		for _, b := range sc.Entries {
			bn := filepath.Clean(string(b.Name))
			if (strings.HasPrefix(bn, an+"/") && bn != an) || (bn == an && b.Type != "fifo") {
				// (a regular file of the same name is opened as its own basis)
				res.Invalid = "an entry below, or under the same name as, a fifo of the same list"
				return
			}
		}
	}
	cr, err := newCanaryRing(job.Scratch, "dest")
	if err != nil {
		res.Inconclusive = err.Error()
		return
	}
	// a few benign things inside the root so that deletion has work to do
	os.WriteFile(filepath.Join(cr.Root, "plain"), []byte("old plain content, long enough to serve as a basis ................................"), 0644)
	os.MkdirAll(filepath.Join(cr.Root, "dir"), 0755)
	os.MkdirAll(filepath.Join(cr.Root, "sub"), 0755)
	cr.arm()
	subst := func(s fstree.Name) string {
		return strings.ReplaceAll(strings.ReplaceAll(string(s), "%A", cr.AbsDir), "%R", "dest")
	}
	lo, _, _, del, _ := refproto.ArgOpts(append([]string{}, sc.Opts...))
	entries := []refproto.Entry{{Name: ".", Mode: refproto.SIFDIR | 0755, Mtime: 1_300_000_000, Size: 4096, Flags: refproto.XTopDir}}
	data := map[string][]byte{}
	for i, e := range sc.Entries {
		name := subst(e.Name)
		if name == "" || len(name) > 3000 {
			res.Invalid = "name"
			return
		}
		re := refproto.Entry{Name: name, Mtime: 1_200_000_000 + int32(i), UID: 12345, GID: 23456}
		switch e.Type {
		case "f":
			re.Mode = refproto.SIFREG | e.Perm&0o777
			b := []byte(fmt.Sprintf("HOSTILE-PAYLOAD-%d-", i))
			for int64(len(b)) < e.Size {
				b = append(b, byte('a'+len(b)%26))
			}
			re.Size = int64(len(b))
			data[name] = b
		case "d":
			re.Mode = refproto.SIFDIR | e.Perm&0o777
			re.Size = 4096
		case "l":
			re.Mode = refproto.SIFLNK | 0o777
			re.Link = subst(e.Link)
			re.Size = int64(len(re.Link))
		case "fifo":
			re.Mode = refproto.SIFIFO | e.Perm&0o777
		case "sock":
			re.Mode = refproto.SIFSOCK | e.Perm&0o777
		case "chr":
			re.Mode = refproto.SIFCHR | e.Perm&0o777
			re.Rdev = 1<<8 | 3
		default:
			res.Invalid = "type"
			return
		}
		entries = append(entries, re)
	}
	// "read" detection: a request carrying the block sums of a canary
	var readLeak string
	checkReq := func(rqs []*refproto.Request, sorted []refproto.Entry, seed int32) {
		for _, rq := range rqs {
			if rq.Head.Count == 0 || rq.Head.BlockLen <= 0 {
				continue
			}
			for tag, secret := range cr.Secrets {
				_, sums := refproto.Signature(secret, int(rq.Head.BlockLen), 16, seed)
				if len(sums) > 0 && len(rq.Sums) > 0 && sums[0].Weak == rq.Sums[0].Weak && bytes.Equal(sums[0].Strong[:rq.Head.StrongLen], rq.Sums[0].Strong[:rq.Head.StrongLen]) {
					name := "?"
					if int(rq.Idx) < len(sorted) {
						name = sorted[rq.Idx].Name
					}
					readLeak = fmt.Sprintf("the generator sent block checksums of the outside file %q for list entry %q (index %d)", tag, name, rq.Idx)
				}
			}
		}
	}
	// a hostile sender may also push data for an index nobody requested: block
	// references against whatever the receiver opens as the basis of that
	// name, with the whole-file checksum of an outside file it knows
	canaryFor := func(name string) []byte {
		switch {
		case strings.HasSuffix(name, "sibling_file") || strings.HasSuffix(name, "link_file"):
			return cr.Secrets["sibling_file"]
		case strings.HasSuffix(name, "/inner"):
			return cr.Secrets["sibling_inner"]
		case strings.HasSuffix(name, "/file") || strings.HasSuffix(name, "link_abs"):
			return cr.Secrets["abs_file"]
		}
		return nil
	}
	unsolicited := func(sorted []refproto.Entry, seed int32) []refproto.Unsol {
		var out []refproto.Unsol
		for i, e := range sorted {
			c := canaryFor(e.Name)
			if !e.IsReg() || c == nil {
				continue
			}
			const bl = 700
			h, _ := refproto.Signature(c, bl, 16, seed)
			var toks []refproto.Tok
			for b := int32(0); b < h.Count; b++ {
				toks = append(toks, refproto.Tok{Block: b})
			}
			out = append(out, refproto.Unsol{Idx: int32(i), Head: h, Toks: toks, Sum: refproto.FileSum(c, seed)})
		}
		return out
	}
	var withhold func(e *refproto.Entry) bool
	if sc.Withhold {
		withhold = func(e *refproto.Entry) bool { return e.Name == "trio" }
	}
	var unsol func([]refproto.Entry, int32) []refproto.Unsol
	if sc.Unsolicited {
		unsol = unsolicited
	}
	log := &lockedBuf{max: 1 << 18}
	var out *RefResult
	var sr *refproto.SendResult
	switch sc.Side {
	case "client":
		client, err := rsyncclient.New(sc.Opts, rsyncclient.WithStderr(log), rsyncclient.DontRestrict())
		if err != nil {
			res.Invalid = err.Error()
			return
		}
		out = RunWithRef(t, &RefRun{Tr: sc.Tr, GuardReal: true,
			OnStep: func(step int) error {
				if step%16 != 0 {
					return nil
				}
				return cr.check()
			},
			Real: func(ctx context.Context, end *kernel.End) error {
				_, err := client.RunDaemon(ctx, end, "mod/", []string{cr.Root})
				return err
			},
			Ref: func(w *refproto.Wire) error {
				var err error
				sr, err = refproto.Send(w, refproto.SendOpts{Server: true, Daemon: true, Seed: 31337, Entries: entries, Data: data, OptsFromArgs: true, Unsolicited: unsol, Withhold: withhold, Users: refproto.IDList{{ID: 12345, Name: "nobody"}}, Groups: refproto.IDList{{ID: 23456, Name: "nogroup"}}})
				if sr != nil {
					checkReq(sr.Requests, sr.Sorted, sr.Seed)
				}
				_ = err
				return nil
			}})
	case "module":
		srv, err := rsyncd.NewServer([]rsyncd.Module{{Name: "mod", Path: cr.Root, Writable: true}}, rsyncd.WithStderr(log), rsyncd.DontRestrict())
		if err != nil {
			res.Inconclusive = err.Error()
			return
		}
		args := append([]string{"--server"}, sc.Opts...)
		args = append(args, ".", "mod/"+sc.Sub)
		out = RunWithRef(t, &RefRun{Tr: sc.Tr, RefIsClient: true,
			OnStep: func(step int) error {
				if step%16 != 0 {
					return nil
				}
				return cr.check()
			},
			Real: func(ctx context.Context, end *kernel.End) error {
				return srv.HandleDaemonConn(ctx, rsyncd.NewConnection(end, end, "192.0.2.66:6666"))
			},
			Ref: func(w *refproto.Wire) error {
				var err error
				sr, err = refproto.Send(w, refproto.SendOpts{Daemon: true, Module: "mod", Args: args, List: lo, SendFilterList: del, Entries: entries, Data: data, Unsolicited: unsol, Withhold: withhold,
					Users: refproto.IDList{{ID: 12345, Name: "nobody"}}, Groups: refproto.IDList{{ID: 23456, Name: "nogroup"}}})
				if sr != nil {
					checkReq(sr.Requests, sr.Sorted, sr.Seed)
				}
				_ = err
				return nil
			}})
	default:
		res.Invalid = "side"
		return
	}
	res.AddRef(out)
	desc := func() string {
		var names []string
		for _, e := range entries {
			names = append(names, fmt.Sprintf("%s(%o)", e.Name, e.Mode))
		}
		return fmt.Sprintf("side=%s sub=%q opts=%v list=%q", sc.Side, sc.Sub, sc.Opts, names)
	}
	if out.HookErr != nil {
		res.Violate("escape", classifyEscape(out.HookErr.Error())+":"+sc.Side, fmt.Sprintf("%s\nmid-session: %v\nlog: %s", desc(), out.HookErr, tail(log.String(), 800)))
		return
	}
	if err := cr.check(); err != nil {
		res.Violate("escape", classifyEscape(err.Error())+":"+sc.Side, fmt.Sprintf("%s\n%v\nlog: %s", desc(), err, tail(log.String(), 800)))
		return
	}
	if _, err := os.Lstat("/etc/verif-canary-should-not-exist"); err == nil {
		os.Remove("/etc/verif-canary-should-not-exist")
		res.Violate("escape", "absolute-name:"+sc.Side, desc()+"\ncreated /etc/verif-canary-should-not-exist")
		return
	}
	if readLeak != "" {
		res.Violate("escape", "read-outside:"+sc.Side, desc()+"\n"+readLeak)
		return
	}
	// outside content that was READ ends up inside the root
	filepath.WalkDir(cr.Root, func(p string, d fs.DirEntry, err error) error {
		if err != nil || !d.Type().IsRegular() {
			return nil
		}
		b, rerr := os.ReadFile(p)
		if rerr != nil {
			return nil
		}
		for tag, secret := range cr.Secrets {
			if bytes.Contains(b, secret[:40]) && res.Violation == nil {
				rel, _ := filepath.Rel(cr.Root, p)
				res.Violate("escape", "read-outside-into-root:"+sc.Side, fmt.Sprintf("%s\nthe content of the outside file %q was read and now sits inside the root as %q", desc(), tag, rel))
			}
		}
		return nil
	})
	if res.Violation != nil {
		return
	}
	if out.Panic != "" {
		// a crash is C08's business; recorded here as a probe only
		res.Probe("receiver_panics_seen", 1)
	}
	if sr != nil {
		res.Probe("requests_seen", len(sr.Requests))
	}
	res.Probe("side_"+sc.Side, 1)
	res.Probe("hostile_entries", len(sc.Entries))
	res.Probe("enum_cases", 1)
	res.NonTrivial = true
	res.Sample = map[string]any{"side": sc.Side, "sub": sc.Sub, "opts": sc.Opts, "entries": len(sc.Entries), "first_names": []string{subst(sc.Entries[0].Name), subst(sc.Entries[len(sc.Entries)-1].Name)}, "real_error": ErrString(out.RealErr)}
}

func classifyEscape(d string) string {
	switch {
	case strings.Contains(d, "extra in second"):
		return "created-outside"
	case strings.Contains(d, "missing in second"):
		return "deleted-outside"
	case strings.Contains(d, "content "):
		return "modified-outside"
	case strings.Contains(d, "perm "):
		return "chmod-outside"
	case strings.Contains(d, "mtime"):
		return "chtimes-outside"
	case strings.Contains(d, "uid ") || strings.Contains(d, "gid "):
		return "chown-outside"
	}
	return "changed-outside"
}

// ---- C06 ------------------------------------------------------------------------------

type C06Scenario struct {
	Module   string   `json:"module"` // module line
	Path     string   `json:"path"`   // path argument line
	Opts     []string `json:"opts"`
	FSModule bool     `json:"fs_module"`
	// Swap: after the file list has been received and right before the file is
	// requested, an external process replaces a regular file inside the module
	// by a symlink to an outside file (time of check / time of use).
	Swap bool `json:"swap,omitempty"`
	// Cross: two modules of one daemon hold a file of the same relative path,
	// size and mtime but different content; the other module is listed (with
	// -c) first, then this one: checksums and data must be this module's.
	Cross bool `json:"cross,omitempty"`
	// SSH: the same daemon reached through its anonymous SSH listener: exec
	// requests that try to make it serve paths outside every module (the
	// machinery of C20, judged here as disclosure).
	SSH *C20Scenario `json:"ssh,omitempty"`
	Tr  Transport    `json:"tr"`
}

type c06 struct{}

func init() { Register("C06", c06{}) }

func (c06) NewScenario() any { return &C06Scenario{} }

var c06Paths = []string{
	"%M/..", "%M/../", "%M/../sibling_file", "%M/../sibling_dir/", "%M/../sibling_dir/inner", "%M//../", "%M/./..", "%M/../%M_evil/", "%M/../%M_evil/file",
	"%A/file", "%A/", "%A", "/", "/etc/hostname", "..", "../", "../sibling_file", ".", "", "%M", "%M/", "%M//", "%M/.", "%M/./", "%M/inside_dir/..", "%M/inside_dir/../..",
	"%M/link_out/", "%M/link_out", "%M/link_out/inner", "%M/link_file", "%M/link_abs/", "%M/link_abs/file", "%M/link_up/", "%M/link_up/sibling_file", "%M/link_up/sibling_dir/inner",
	"%M/inside_file", "%M/inside_dir/", "%M/inside_dir/deep", "%Mx/../%M/../sibling_file", "%M/../../../../../../etc/hostname", "%M/inside_dir/../../sibling_file",
	"%M/\x00", "%M/ ", "%M/link_file/", "%M/link_out/../sibling_file",
}

func (c06) Generate(seed uint64, tier string, index int) any {
	g := NewGen(kernel.Derive(seed, "workload"), tier == "thorough")
	if index%40 == 39 {
		ssh := &C20Scenario{Mode: "anon", Keys: []C20Key{{Type: c20KeyTypes[g.R.Intn(len(c20KeyTypes))]}}}
		var senders []string
		for _, c := range append(append([]string{}, c20Cmds...), c20AmbiguousCmds...) {
			if strings.Contains(c, "--sender") || strings.Contains(c, "secret") {
				senders = append(senders, c)
			}
		}
		for i := 0; i < 4; i++ {
			c := senders[g.R.Intn(len(senders))]
			op := "exec"
			for _, a := range c20AmbiguousCmds {
				if a == c {
					op = "exec-lenient"
				}
			}
			ssh.Sessions = append(ssh.Sessions, C20Session{Op: op, Cmd: c})
		}
		ssh.Sessions = append(ssh.Sessions, C20Session{Op: "daemon", Cmd: c20DaemonCmds[0]})
		ssh.Tr = Transport{CapCS: kernel.Unbounded, CapSC: kernel.Unbounded, Chunk: g.R.Intn(4), Bias: g.R.Intn(2), SchedSeed: g.R.Uint64() >> 1}
		return &C06Scenario{Module: "ssh", SSH: ssh, Tr: ssh.Tr}
	}
	sc := &C06Scenario{FSModule: g.R.Intn(3) == 0}
	sc.Module = []string{"mod", "mod", "mod", "modx", "mo"}[g.R.Intn(5)]
	if sc.FSModule {
		sc.Module = "modfs"
	}
	sc.Path = strings.ReplaceAll(c06Paths[g.R.Intn(len(c06Paths))], "%M", sc.Module)
	opts := []string{}
	for _, o := range []string{"-r", "-l", "-c", "-t", "-p", "-D", "-o", "-g"} {
		p := 2
		if o == "-r" {
			p = 3
		}
		if g.R.Intn(4) < p {
			opts = append(opts, o)
		}
	}
	sc.Opts = opts
	if g.R.Intn(8) == 0 {
		sc.Cross = true
		sc.Module = []string{"mod", "modx"}[g.R.Intn(2)]
		sc.FSModule = false
		sc.Path = sc.Module + "/"
		sc.Opts = []string{"-r", "-c"}
		if g.R.Bool() {
			sc.Opts = append(sc.Opts, "-t")
		}
	} else if g.R.Intn(5) == 0 {
		// time-of-check/time-of-use: a benign request whose file is swapped for a symlink
		sc.Swap = true
		sc.Path = sc.Module + []string{"/", "/inside_file", "/inside_dir/"}[g.R.Intn(3)]
		sc.Opts = append([]string{"-r"}, opts...)
	}
	sc.Tr = g.TransportFor(12, 64<<10)
	if sc.Tr.CapSC != kernel.Unbounded && sc.Tr.CapSC < 4096 {
		sc.Tr.CapSC = 4096
	}
	return sc
}

func (c06) Run(t *testing.T, scenario any, job *Job, res *Result) {
	sc := scenario.(*C06Scenario)
	if sc.SSH != nil {
		if sc.SSH.Mode != "anon" {
			res.Invalid = "ssh scenario"
			return
		}
		os.Setenv("GOKRAZY_RSYNC_PRIVDROP", "1")
		c20{}.Run(t, sc.SSH, job, res)
		os.Unsetenv("GOKRAZY_RSYNC_PRIVDROP")
		if res.Violation != nil {
			res.Violation.Signature = "ssh:" + res.Violation.Kind + ":" + res.Violation.Signature
			res.Violation.Kind = "disclosure"
		}
		res.Probe("ssh_listener_runs", 1)
		res.NonTrivial = true
		res.Sample = map[string]any{"mode": "ssh", "sessions": len(sc.SSH.Sessions)}
		return
	}
	cr, err := newCanaryRing(job.Scratch, "mod")
	if err != nil {
		res.Inconclusive = err.Error()
		return
	}
	// module content
	inside := map[string][]byte{"inside_file": []byte("INSIDE-FILE-CONTENT harmless"), "inside_dir/deep": []byte("INSIDE-DEEP harmless")}
	os.MkdirAll(filepath.Join(cr.Root, "inside_dir"), 0755)
	for p, b := range inside {
		os.WriteFile(filepath.Join(cr.Root, p), b, 0644)
	}
	modx := filepath.Join(cr.Area, "modx_root")
	mo := filepath.Join(cr.Area, "mo_root")
	for _, d := range []string{modx, mo} {
		os.MkdirAll(d, 0755)
		os.WriteFile(filepath.Join(d, "other_module_file"), []byte("OTHER-MODULE "+filepath.Base(d)), 0644)
	}
	sharedA := []byte("SHARED-NAME content of module mod ......")
	sharedB := []byte("SHARED-NAME content of module modx .....")
	if sc.Cross {
		for _, x := range []struct {
			dir string
			b   []byte
		}{{cr.Root, sharedA}, {modx, sharedB}} {
			p := filepath.Join(x.dir, "shared_name")
			os.WriteFile(p, x.b, 0644)
			mt := time.Unix(1_555_555_555, 0)
			os.Chtimes(p, mt, mt)
		}
	}
	path := strings.ReplaceAll(sc.Path, "%A", cr.AbsDir)
	if strings.ContainsAny(path, "\n") {
		res.Invalid = "newline in path argument"
		return
	}
	slog := &lockedBuf{max: 1 << 18}
	srv, err := rsyncd.NewServer([]rsyncd.Module{
		{Name: "mod", Path: cr.Root},
		{Name: "modx", Path: modx},
		{Name: "mo", Path: mo},
		// an fs.FS that is itself confined to the directory (os.DirFS follows
		// symlinks anywhere: with it, "outside" objects would be part of the FS)
		{Name: "modfs", FS: mustRootFS(cr.Root)},
	}, rsyncd.WithStderr(slog), rsyncd.DontRestrict())
	if err != nil {
		res.Inconclusive = err.Error()
		return
	}
	lo, _, _, _, _ := refproto.ArgOpts(sc.Opts)
	args := append([]string{"--server", "--sender"}, sc.Opts...)
	args = append(args, ".", path)
	if sc.Cross {
		other := "modx"
		if sc.Module == "modx" {
			other = "mod"
		}
		pre := RunWithRef(t, &RefRun{Tr: sc.Tr, RefIsClient: true,
			Real: func(ctx context.Context, end *kernel.End) error {
				return srv.HandleDaemonConn(ctx, rsyncd.NewConnection(end, end, "192.0.2.77:7776"))
			},
			Ref: func(w *refproto.Wire) error {
				refproto.Pull(w, refproto.PullOpts{Daemon: true, Module: other, Args: append(append([]string{"--server", "--sender"}, sc.Opts...), ".", other+"/"), List: lo, ServerIsSender: true, MaxData: 1 << 20,
					Plan: func(int, *refproto.Entry, int32) (bool, []byte, int, int) { return true, nil, 0, 0 }})
				return nil
			}})
		res.AddRef(pre)
	}
	var wire bytes.Buffer
	var pr *refproto.PullResult
	nswapped := 0
	out := RunWithRef(t, &RefRun{Tr: sc.Tr, RefIsClient: true,
		TapFromReal: func(b []byte) {
			if wire.Len() < 32<<20 {
				wire.Write(b)
			}
		},
		Real: func(ctx context.Context, end *kernel.End) error {
			return srv.HandleDaemonConn(ctx, rsyncd.NewConnection(end, end, "192.0.2.77:7777"))
		},
		Ref: func(w *refproto.Wire) error {
			swapped := map[string]bool{}
			pr, _ = refproto.Pull(w, refproto.PullOpts{Daemon: true, Module: sc.Module, Args: args, List: lo, ServerIsSender: true, MaxData: 16 << 20,
				PlanExtra: 1 + int(sc.Tr.SchedSeed%1009), // a hostile receiver also asks for the "content" of one symlink, directory or device
				Plan: func(idx int, e *refproto.Entry, seed int32) (bool, []byte, int, int) {
					if sc.Swap && (sc.Module == "mod" || sc.Module == "modfs") {
						// the list is in; swap the file for a symlink out of the module now
						for _, cand := range []string{e.Name, "inside_file", "inside_dir/deep", "inside_dir/" + e.Name} {
							p := filepath.Join(cr.Root, cand)
							if fi, err := os.Lstat(p); err == nil && fi.Mode().IsRegular() && !swapped[p] {
								swapped[p] = true
								os.Remove(p)
								os.Symlink(filepath.Join(cr.Area, "sibling_file"), p)
								nswapped++
							}
						}
					}
					if idx%2 == 1 {
						return true, []byte("basis data so that the sender takes the delta path, long enough"), 16, 16
					}
					return true, nil, 0, 0
				}})
			return nil
		}})
	res.AddRef(out)
	desc := fmt.Sprintf("module=%q path=%q opts=%v fs_module=%v", sc.Module, path, sc.Opts, sc.FSModule)
	raw := wire.Bytes()
	// which module was addressed decides what counts as "outside"
	modRoot := map[string]string{"mod": cr.Root, "modfs": cr.Root, "modx": modx, "mo": mo}[sc.Module]
	for tag, secret := range cr.Secrets {
		if bytes.Contains(raw, secret[:40]) || bytes.Contains(raw, secret[len(secret)-64:]) {
			res.Violate("disclosure", "content:"+modKind(sc), fmt.Sprintf("%s: the server's byte stream contains the content of the outside file %q\nserver log: %s", desc, tag, tail(slog.String(), 600)))
			return
		}
		sum := refproto.PlainMD4(secret)
		if bytes.Contains(raw, sum[:]) {
			res.Violate("disclosure", "checksum:"+modKind(sc), fmt.Sprintf("%s: the server's byte stream contains the MD4 of the outside file %q", desc, tag))
			return
		}
	}
	// content of other modules is outside as well
	for _, other := range []string{"OTHER-MODULE modx_root", "OTHER-MODULE mo_root"} {
		if strings.HasSuffix(other, filepath.Base(modRoot)) {
			continue
		}
		if bytes.Contains(raw, []byte(other)) {
			res.Violate("disclosure", "other-module-content:"+modKind(sc), fmt.Sprintf("%s: stream contains content of another module (%s)", desc, other))
			return
		}
	}
	for _, name := range []string{"sibling_file", "sibling_dir", "abs_canary", "other_module_file"} {
		if name == "other_module_file" && (sc.Module == "modx" || sc.Module == "mo") {
			continue
		}
		// names may legitimately occur as symlink TARGET strings of inside symlinks (with -l)
		if bytes.Contains(raw, []byte(name)) && !onlyAsLinkTarget(pr, name) {
			res.Violate("disclosure", "name:"+modKind(sc), fmt.Sprintf("%s: the name %q of an outside object occurs in the server's byte stream (decoded list: %q)", desc, name, listNames(pr)))
			return
		}
	}
	// decoded names must be objects inside the module
	if pr != nil && pr.List != nil {
		for _, e := range pr.List.Entries {
			if !nameInsideModule(modRoot, path, sc.Module, e.Name) {
				res.Violate("disclosure", "outside-entry:"+modKind(sc), fmt.Sprintf("%s: list entry %q does not name an object inside the module (list %q)", desc, e.Name, listNames(pr)))
				return
			}
		}
		res.Probe("entries_listed", len(pr.List.Entries))
		if len(pr.List.Entries) > 0 {
			res.Probe("requests_answered_with_a_list", 1)
		}
	}
	if sc.Cross && pr != nil && pr.List != nil {
		own := sharedA
		if sc.Module == "modx" {
			own = sharedB
		}
		for _, e := range pr.List.Entries {
			if e.Name == "shared_name" && lo.Checksum && e.Sum != refproto.PlainMD4(own) {
				res.Violate("disclosure", "other-module-checksum", fmt.Sprintf("%s: the checksum listed for %q is not that of this module's file (another module of the daemon holds a file of the same path, size and mtime and was listed first)", desc, e.Name))
				return
			}
		}
		for _, fr := range pr.Files {
			if fr.Entry.Name == "shared_name" && !bytes.Equal(fr.Data, own) {
				res.Violate("disclosure", "other-module-data", fmt.Sprintf("%s: data served for %q is not this module's file", desc, fr.Entry.Name))
				return
			}
		}
		res.Probe("cross_module_runs", 1)
	}
	if pr != nil {
		res.Probe("stage_"+pr.Stage, 1)
	}
	res.Fault("file_swapped_for_outside_symlink", nswapped)
	res.NonTrivial = true
	st := ""
	if pr != nil {
		st = pr.Stage + " " + pr.Status
	}
	res.Sample = map[string]any{"module": sc.Module, "path": path, "opts": sc.Opts, "fs_module": sc.FSModule, "result": st, "listed": listNames(pr)}
}

func modKind(sc *C06Scenario) string {
	if sc.FSModule {
		return "fs-module"
	}
	return "dir-module"
}

func listNames(pr *refproto.PullResult) []string {
	var out []string
	if pr == nil || pr.List == nil {
		return out
	}
	for _, e := range pr.List.Entries {
		out = append(out, e.Name)
		if len(out) > 30 {
			break
		}
	}
	return out
}

func onlyAsLinkTarget(pr *refproto.PullResult, name string) bool {
	if pr == nil || pr.List == nil {
		return false
	}
	found := false
	for _, e := range pr.List.Entries {
		if strings.Contains(e.Name, name) {
			return false
		}
		if strings.Contains(e.Link, name) {
			found = true
		}
	}
	return found
}

// nameInsideModule: the entry must resolve to an existing object below the
// module root without passing through a symlink or "..".
func nameInsideModule(modRoot, reqPath, module, name string) bool {
	if name == "." {
		return true
	}
	clean := filepath.Clean("/" + name)
	if strings.Contains(name, "..") && (strings.HasPrefix(name, "../") || strings.Contains(name, "/../") || strings.HasSuffix(name, "/..") || name == "..") {
		return false
	}
	// the name is relative to the requested directory or to the module root
	bases := []string{modRoot}
	rp := strings.TrimPrefix(reqPath, module)
	rp = strings.Trim(rp, "/")
	if rp != "" && !strings.Contains(rp, "..") {
		bases = append(bases, filepath.Join(modRoot, rp), filepath.Dir(filepath.Join(modRoot, rp)))
	}
	for _, b := range bases {
		p := filepath.Join(b, clean)
		if !strings.HasPrefix(p, modRoot+"/") && p != modRoot {
			continue
		}
		if _, err := os.Lstat(p); err != nil {
			continue
		}
		// no symlink on the way
		ok := true
		for d := filepath.Dir(p); strings.HasPrefix(d, modRoot) && d != modRoot; d = filepath.Dir(d) {
			if fi, err := os.Lstat(d); err == nil && fi.Mode()&os.ModeSymlink != 0 {
				ok = false
			}
		}
		if ok {
			return true
		}
	}
	return false
}

func mustRootFS(dir string) fs.FS {
	r, err := os.OpenRoot(dir)
	if err != nil {
		panic(err)
	}
	return r.FS()
}
