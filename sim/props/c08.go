package props

import (
	"bytes"
	"context"
	"fmt"
	"os"
	"path/filepath"
	"sort"
	"strings"
	"testing"
	"testing/synctest"

	"github.com/gokrazy/rsync/rsyncclient"
	"github.com/gokrazy/rsync/rsyncd"

	"verif/sim/kernel"
	"verif/sim/refproto"
)

// C08: malformed or hostile peer input ends only that session, with an error.

type C08Session struct {
	Kind   string             `json:"kind"` // pull-mut push-mut args cut-pull cut-push noise srv-pull-mut srv-push-mut srv-noise
	Mut    *refproto.Mutation `json:"mut,omitempty"`
	Args   []string           `json:"args,omitempty"`
	Module string             `json:"module,omitempty"`
	CutAt  int64              `json:"cut_at,omitempty"`
	Noise  uint64             `json:"noise,omitempty"`
	NoiseN int                `json:"noise_n,omitempty"`
	Stage  int                `json:"stage,omitempty"` // noise: after how many handshake steps
	Opts   []string           `json:"opts,omitempty"`
	// Frame: srv-bigframe: the hostile server packs its (otherwise valid) output
	// into multiplex frames of up to this many bytes (up to the 24-bit limit)
	Frame int `json:"frame,omitempty"`
	// Plan selects the checksum layout the hostile receiver signs its basis
	// with (c08Plans): mutations of one header field then meet bases that are
	// exact multiples of the block length, single blocks, short strong sums...
	Plan int `json:"plan,omitempty"`
	// Linger: when the hostile peer ends up waiting for bytes that will never
	// come it does NOT close its connection: it lingers, stalled, while the
	// following sessions (the canonical request first of all) are served.
	Linger bool `json:"linger,omitempty"`
}

// (basis length, block length, strong checksum length)
var c08Plans = [][3]int{{51, 16, 16}, {48, 16, 16}, {16, 16, 2}, {64, 64, 2}, {1400, 700, 16}, {700, 700, 2}, {33, 11, 8}, {5, 8, 16}, {256, 1, 1}}

// filter lists a hostile client sends: rules the implementation cannot
// honour must end the session with an error, not crash the daemon later
var c08Filters = [][]string{{"- nothing"}, {"- nothing"}, {"- *.o"}, {"+ a?c", "- alpha"}, {"- [ab]eta"}, {"- **"}, {"- dir/*"}, {"+ */", "- *"}, {"!"}, {"- alpha", "+ alpha", "- dir/"}, {"-nospace"}, {""}}

func c08Plan(variant int) func(idx int, e *refproto.Entry, seed int32) (bool, []byte, int, int) {
	if variant < 0 {
		variant = -variant
	}
	p := c08Plans[variant%len(c08Plans)]
	basis := make([]byte, p[0])
	for i := range basis {
		basis[i] = byte('a' + (i*7+i/13)%26)
	}
	return func(idx int, e *refproto.Entry, seed int32) (bool, []byte, int, int) {
		if idx%3 != 2 {
			return true, basis, p[1], p[2]
		}
		return true, nil, 0, 0
	}
}

type C08Scenario struct {
	Target   string       `json:"target"` // daemon | client
	Sessions []C08Session `json:"sessions"`
	Tr       Transport    `json:"tr"`
}

type c08 struct{}

func init() { Register("C08", c08{}) }

func (c08) NewScenario() any { return &C08Scenario{} }

// fields the reference peer writes as a client towards a daemon
var c08ClientPullFields = []string{"greeting", "module", "arg", "argend", "filter.len", "filter.rule", "filter.end", "req.idx", "req.count", "req.blocklen", "req.stronglen", "req.remainder", "req.weak", "req.strong", "phase", "goodbye"}
var c08ClientPushFields = []string{"greeting", "module", "arg", "flist.flags", "flist.inherit", "flist.namelen", "flist.namelen8", "flist.name", "flist.size", "flist.mtime", "flist.mode", "flist.uid", "flist.gid", "flist.rdev", "flist.linklen", "flist.link", "flist.sum", "flist.end", "uidlist.id", "uidlist.len", "uidlist.name", "uidlist.end", "gidlist.id", "gidlist.len", "gidlist.end", "flist.ioerr", "rep.idx", "rep.count", "rep.blocklen", "rep.stronglen", "rep.remainder", "rep.littoken", "rep.literal", "rep.blocktoken", "rep.endtoken", "rep.filesum", "phase.echo", "filter.len", "filter.rule"}
var c08ServerSendFields = []string{"mux.header", "mux.header", "greeting", "status", "version", "seed", "flist.flags", "flist.inherit", "flist.namelen", "flist.namelen8", "flist.name", "flist.size", "flist.mtime", "flist.mode", "flist.uid", "flist.gid", "flist.rdev", "flist.linklen", "flist.link", "flist.sum", "flist.end", "uidlist.id", "uidlist.len", "uidlist.name", "uidlist.end", "gidlist.id", "gidlist.len", "flist.ioerr", "rep.idx", "rep.count", "rep.blocklen", "rep.stronglen", "rep.remainder", "rep.littoken", "rep.literal", "rep.blocktoken", "rep.endtoken", "rep.filesum", "phase.echo", "stats.read", "stats.size"}
var c08ServerRecvFields = []string{"mux.header", "mux.header", "greeting", "status", "seed", "req.idx", "req.count", "req.blocklen", "req.stronglen", "req.remainder", "req.weak", "req.strong", "phase", "goodbye"}

// count-like fields: no multi-gigabyte declarations (outside the guarantee)
var c08CountLike = map[string]bool{"flist.namelen": true, "flist.linklen": true, "filter.len": true, "rep.littoken": true, "req.count": true, "req.blocklen": true, "rep.count": true, "rep.blocklen": true, "flist.size": false}

var c08Classes = []string{"neg", "minus1", "zero", "inc", "dec", "big", "trunc", "noise", "max", "min"}

func genMutation(g *Gen, fields []string) *refproto.Mutation {
	f := fields[g.R.Intn(len(fields))]
	cl := c08Classes[g.R.Intn(len(c08Classes))]
	if c08CountLike[f] && cl == "max" {
		cl = "big"
	}
	if (f == "rep.idx" || f == "req.idx") && g.R.Intn(3) == 0 {
		cl = "listlen" // exactly one past the last entry
	}
	return &refproto.Mutation{Field: f, Nth: g.R.Intn(6), Class: cl}
}

var c08ArgLines = [][]string{
	{"--server", "--sender", "--version", ".", "ro/"},
	{"--version"},
	{"--help"},
	{"--server", "--sender", "--help", ".", "ro/"},
	{"--server", "--sender", "--info=help", ".", "ro/"},
	{"--server", "--sender", "--debug=help", ".", "ro/"},
	{"--server", "--sender", "--info=nonsense9", ".", "ro/"},
	{"--server", "--sender", "--debug=all99999999999999999999", ".", "ro/"},
	{"--server", "--daemon", "-h"},
	{"--daemon", "-h"},
	{"--daemon", "--help"},
	{"-h"},
	{"-hh"},
	{"-V"},
	{"--server", "--sender", "-hh", ".", "ro/"},
	{"--server", "--sender", "-r", ".", "ro/"},
	{"--server", "--sender", "-r", "."},
	{"--server", "--sender", "-r"},
	{"--server", "--sender", "-r", "x", "ro/"},
	{"--server", "-r", ".", "rw/"},
	{"--server", "--sender", "-H", "-r", ".", "ro/"},
	{"--server", "-H", "-r", ".", "rw/"},
	{"--server", "--sender", "--does-not-exist", ".", "ro/"},
	{"--server", "--sender", "-Q", ".", "ro/"},
	{"--server", "--sender", "--delete=thoroughly", ".", "ro/"},
	{"--server", "--sender", "-e", "x", ".", "ro/"},
	{"--server", "--sender", "--rsh=/bin/false", ".", "ro/"},
	{"--server", "--sender", "--timeout", ".", "ro/"},
	{"--server", "--sender", "--timeout=-1", "-r", ".", "ro/"},
	{"--server", "--sender", "-T", ".", "ro/"},
	{"--server", "--sender", "--block-size=0", ".", "ro/"},
	{"--server", "--sender", "-B", ".", "ro/"},
	{"--server", "--sender", "--max-size=1", ".", "ro/"},
	{"--server", "--sender", "--chmod=u+x", ".", "ro/"},
	{"--server", "--sender", "--files-from=/etc/passwd", "-r", ".", "ro/"},
	{"--server", "--sender", "--gokr.config=/etc/passwd", ".", "ro/"},
	{"--server", "--sender", "--gokr.listen=:1", ".", "ro/"},
	{"--server", "--sender", "-r", "--exclude=*", ".", "ro/"},
	{"--server", "--sender", "-r", "--filter=- [a", ".", "ro/"},
	{"--server", "--sender", "-vvvvvvvvvvvvvvv", "-r", ".", "ro/"},
	{"--server", "--sender", "--progress", "-P", "-r", ".", "ro/"},
	{"--server", "--sender", "-rn", ".", "ro/"},
	{"--server", "--sender", "-rc", ".", "ro/", "ro/", "ro/x", "/etc"},
	{"--server", "--sender", "-r", ".", "ro/\x00"},
	{"--server", "--sender", strings.Repeat("-v", 5000), ".", "ro/"},
	{"--server", "--sender", "-" + strings.Repeat("r", 70000), ".", "ro/"},
	{"--server", "--sender", "-M--version", ".", "ro/"},
	{"--server", "--sender", "--stderr=all", ".", "ro/"},
	{"--server", "--sender", "--usermap=*:0", "-r", ".", "ro/"},
	{"--server", "--sender", "-A", "-X", "-r", ".", "ro/"},
	{"--server", "--sender", "--iconv=.", "-z", "-r", ".", "ro/"},
	{"--server", "--sender", "--no-motd", "--checksum-seed", "-r", ".", "ro/"},
	{"--server", "--sender", "--checksum-seed=x", "-r", ".", "ro/"},
	{"--", "--server"},
	{""},
	// a value-taking option as the LAST line: its value is missing
	{"--server", "--sender", "-r", ".", "ro/", "--exclude"},
	{"--server", "--sender", "--filter"},
	{"--server", "--include"},
	{"--server", "--sender", "-r", "--info"},
	{"--debug"},
	{"--server", "--sender", "-e"},
	{"--server", "-r", ".", "rw/", "--rsh"},
	{"--server", "--sender", "-f"},
	// many option lines, no positional argument at all
	{"--server", "--sender", "-r", "-t", "-v"},
	{"--server", "-r", "-l"},
}

func (c08) Generate(seed uint64, tier string, index int) any {
	g := NewGen(kernel.Derive(seed, "workload"), tier == "thorough")
	sc := &C08Scenario{Target: "daemon"}
	if index%3 == 2 {
		sc.Target = "client"
	}
	n := 6
	if tier == "thorough" {
		n = 14
	}
	for i := 0; i < n; i++ {
		var s C08Session
		if sc.Target == "daemon" {
			switch g.R.Intn(10) {
			case 0, 1, 2:
				s = C08Session{Kind: "pull-mut", Mut: genMutation(g, c08ClientPullFields), Module: []string{"ro", "fsm", "rw"}[g.R.Intn(3)], Plan: g.R.Intn(len(c08Plans) * len(c08Filters))}
			case 3, 4, 5:
				s = C08Session{Kind: "push-mut", Mut: genMutation(g, c08ClientPushFields), Opts: []string{"-r", "-rlogD", "-rc", "-r --delete"}[g.R.Intn(4):][:1]}
			case 6:
				a := c08ArgLines[g.R.Intn(len(c08ArgLines))]
				s = C08Session{Kind: "args", Args: a, Module: []string{"ro", "rw", "ro", "", "#list", "nonexistent", "ro\x00", strings.Repeat("m", 5000)}[g.R.Intn(8)]}
			case 7:
				s = C08Session{Kind: "cut-pull", CutAt: g.R.Int63n(400), Module: "ro"}
			case 8:
				s = C08Session{Kind: "cut-push", CutAt: g.R.Int63n(1500)}
			default:
				s = C08Session{Kind: "noise", Noise: g.R.Uint64() >> 1, NoiseN: 1 + g.R.Intn(3000), Stage: g.R.Intn(5), Module: []string{"ro", "rw"}[g.R.Intn(2)]}
			}
			s.Linger = g.R.Intn(4) == 0
		} else {
			switch g.R.Intn(6) {
			case 5:
				s = C08Session{Kind: "srv-bigframe", Opts: []string{"-r"}, Frame: []int{32768, 65536, 262144, 262145, 300000, 524288, 1 << 20, 4 << 20, 1<<24 - 1}[g.R.Intn(9)]}
			case 0, 1:
				s = C08Session{Kind: "srv-pull-mut", Mut: genMutation(g, c08ServerSendFields), Opts: []string{"-r", "-rlogD", "-rc", "-rn", "-a"}[g.R.Intn(5):][:1]}
			case 2, 3:
				s = C08Session{Kind: "srv-push-mut", Mut: genMutation(g, c08ServerRecvFields), Opts: []string{"-r", "-rt", "-rc"}[g.R.Intn(3):][:1], Plan: g.R.Intn(len(c08Plans))}
			default:
				s = C08Session{Kind: "srv-noise", Noise: g.R.Uint64() >> 1, NoiseN: 1 + g.R.Intn(3000), Stage: g.R.Intn(4), Opts: []string{"-r"}}
			}
		}
		sc.Sessions = append(sc.Sessions, s)
	}
	sc.Tr = Transport{CapCS: 65536, CapSC: 65536, Chunk: g.R.Intn(4), Bias: g.R.Intn(2), SchedSeed: g.R.Uint64() >> 1}
	return sc
}

// c08Tree is the fixed content used by both sides.
func c08Files() map[string][]byte {
	return map[string][]byte{
		"alpha":       bytes.Repeat([]byte("alpha content "), 200),
		"beta":        []byte("beta"),
		"dir/gamma":   bytes.Repeat([]byte{0xfe, 0x01, 0x80}, 999),
		"dir/delta":   nil,
		"dir/sub/eps": []byte("epsilon epsilon"),
	}
}

func c08Entries() ([]refproto.Entry, map[string][]byte) {
	data := c08Files()
	es := []refproto.Entry{
		{Name: ".", Mode: refproto.SIFDIR | 0755, Mtime: 1500000000, Size: 4096, Flags: refproto.XTopDir},
		{Name: "dir", Mode: refproto.SIFDIR | 0755, Mtime: 1500000001, Size: 4096, UID: 1000, GID: 100},
		{Name: "dir/sub", Mode: refproto.SIFDIR | 0750, Mtime: 1500000002, Size: 4096},
		{Name: "lnk", Mode: refproto.SIFLNK | 0777, Mtime: 1500000003, Size: 4, Link: "beta"},
		{Name: "pipe", Mode: refproto.SIFIFO | 0644, Mtime: 1500000003},
		{Name: "null", Mode: refproto.SIFCHR | 0666, Mtime: 1500000003, Rdev: 0x103},
	}
	var names []string
	for name := range data {
		names = append(names, name)
	}
	sort.Strings(names) // wire order must not depend on map iteration: mutations address the n-th occurrence of a field
	for _, name := range names {
		b := data[name]
		es = append(es, refproto.Entry{Name: name, Mode: refproto.SIFREG | 0644, Mtime: 1400000000, Size: int64(len(b)), UID: 1000, GID: 100, Sum: refproto.PlainMD4(b)})
	}
	return es, data
}

func noiseBytes(seed uint64, n int) []byte {
	r := kernel.NewRNG(seed)
	b := make([]byte, n)
	for i := range b {
		b[i] = byte(r.Uint64())
	}
	// sprinkle protocol-looking fragments
	if n > 40 {
		copy(b[n/3:], "@RSYNCD: 27\n")
		copy(b[2*n/3:], []byte{0xff, 0xff, 0xff, 0xff, 0, 0, 0, 0x80})
	}
	return b
}

func (c08) Run(t *testing.T, scenario any, job *Job, res *Result) {
	sc := scenario.(*C08Scenario)
	if len(sc.Sessions) == 0 {
		res.Invalid = "no sessions"
		return
	}
	switch sc.Target {
	case "daemon":
		c08Daemon(t, sc, job, res)
	case "client":
		c08Client(t, sc, job, res)
	default:
		res.Invalid = "target"
	}
}

func c08Daemon(t *testing.T, sc *C08Scenario, job *Job, res *Result) {
	lay := NewLayout(job.Scratch)
	ro := filepath.Join(lay.Root, "ro")
	rw := filepath.Join(lay.Root, "rw")
	for name, b := range c08Files() {
		p := filepath.Join(ro, name)
		os.MkdirAll(filepath.Dir(p), 0755)
		os.WriteFile(p, b, 0644)
	}
	os.MkdirAll(rw, 0755)
	entries, data := c08Entries()
	var fired, canonicalOK, hangs, gaveUp, lingered int
	var failure string
	defer func() {
		if r := recover(); r != nil {
			res.Inconclusive = fmt.Sprintf("bubble panic: %v", r)
		}
	}()
	synctest.Test(t, func(t *testing.T) {
		sim := sc.Tr.NewSim()
		ctx, cancel := context.WithCancel(context.Background())
		defer cancel()
		slog := &lockedBuf{max: 1 << 18}
		srv, err := rsyncd.NewServer([]rsyncd.Module{{Name: "ro", Path: ro}, {Name: "rw", Path: rw, Writable: true}, {Name: "fsm", FS: os.DirFS(ro)}},
			rsyncd.WithStderr(slog), rsyncd.DontRestrict())
		if err != nil {
			failure = "NewServer: " + err.Error()
			return
		}
		ln := sim.Listen("10.9.9.9:873")
		go srv.Serve(ctx, ln)
		var lingering []*kernel.End
		lingerNext := false
		runParty := func(name string, fn func(w *refproto.Wire, end *kernel.End) error, cut int64) (kernel.Outcome, error) {
			end := ln.Dial("203.0.113.5:4000", sc.Tr.CapCS, sc.Tr.CapSC)
			if cut > 0 {
				end.WPipe().CutAt(cut)
			}
			p := sim.Go(name, func() error {
				w := refproto.NewWire(end, end)
				err := fn(w, end)
				w.Flush()
				return err
			}, end)
			out := sim.Run()
			if out == kernel.Deadlock && !p.Done() && lingerNext {
				// the hostile peer stays connected, stalled: everybody else must
				// still be served (its own handler may wait as long as it likes)
				lingering = append(lingering, end)
				return kernel.Finished, nil
			}
			if out == kernel.Deadlock && !p.Done() {
				// the hostile peer is itself waiting for bytes that will never
				// come: it gives up and closes (stalled peers are outside the
				// guarantee); the handler must then terminate
				gaveUp++
				end.Close()
				out = sim.Run()
			}
			if out == kernel.Deadlock && p.Done() && len(lingering) > 0 {
				out = kernel.Finished // only the lingering peers' sessions are left
			}
			return out, p.Err()
		}
		for i := range sc.Sessions {
			s := &sc.Sessions[i]
			var mut *refproto.Mutation
			if s.Mut != nil {
				m := *s.Mut
				mut = &m
			}
			mod := s.Module
			if mod == "" && s.Kind != "args" {
				mod = "ro"
			}
			var out kernel.Outcome
			lingerNext = s.Linger
			switch s.Kind {
			case "pull-mut", "cut-pull":
				out, _ = runParty("hostile", func(w *refproto.Wire, end *kernel.End) error {
					w.Mut = mut
					_, err := refproto.Pull(w, refproto.PullOpts{Daemon: true, Module: mod, Args: []string{"--server", "--sender", "-r", ".", mod + "/"}, Filters: c08Filters[s.Plan%len(c08Filters)], ServerIsSender: true, MaxData: 1 << 20,
						Plan: c08Plan(s.Plan)})
					return err
				}, s.CutAt)
			case "push-mut", "cut-push":
				opts := s.Opts
				if len(opts) == 0 {
					opts = []string{"-r"}
				}
				args := append([]string{"--server"}, strings.Fields(opts[0])...)
				args = append(args, ".", "rw/up/")
				lo, _, _, del, _ := refproto.ArgOpts(args)
				out, _ = runParty("hostile", func(w *refproto.Wire, end *kernel.End) error {
					w.Mut = mut
					_, err := refproto.Send(w, refproto.SendOpts{Daemon: true, Module: "rw", Args: args, List: lo, SendFilterList: del, WriteFilters: []string{"- x"}, Entries: entries, Data: data,
						Users: refproto.IDList{{ID: 1000, Name: "someuser"}}, Groups: refproto.IDList{{ID: 100, Name: "users"}}, Style: refproto.EncodeStyle{Compress: true}})
					return err
				}, s.CutAt)
			case "args":
				out, _ = runParty("hostile", func(w *refproto.Wire, end *kernel.End) error {
					st, _, err := w.DaemonClientHandshake(s.Module, s.Args)
					if err != nil || st != "@RSYNCD: OK" {
						return err
					}
					// read whatever comes until the server closes
					for {
						if _, err := w.GetBytes(1); err != nil {
							return nil
						}
					}
				}, 0)
			case "noise":
				out, _ = runParty("hostile", func(w *refproto.Wire, end *kernel.End) error {
					nb := noiseBytes(s.Noise, s.NoiseN)
					switch s.Stage {
					case 0:
					case 1:
						w.PutString("greeting", "@RSYNCD: 27\n")
					case 2:
						w.PutString("greeting", "@RSYNCD: 27\n"+mod+"\n")
					default:
						st, _, err := w.DaemonClientHandshake(mod, []string{"--server", "--sender", "-r", ".", mod + "/"})
						if err != nil || st != "@RSYNCD: OK" {
							return err
						}
						if s.Stage == 4 {
							w.WriteFilterList(nil)
						}
					}
					w.PutBytes("noise", nb)
					w.Flush()
					end.CloseWrite()
					for {
						if _, err := w.GetBytes(1); err != nil {
							return nil
						}
					}
				}, 0)
			default:
				failure = "unknown session kind " + s.Kind
				return
			}
			if mut != nil && mut.Fired {
				fired++
			}
			if out == kernel.Deadlock {
				hangs++
				failure = fmt.Sprintf("session %d (%s %+v): the hostile peer has closed its side but a handler is still blocked: %s", i, s.Kind, s.Mut, sim.PendingSummary())
				res.Violate("handler-stuck", "handler-stuck:"+s.Kind, failure)
				break
			}
			// after every hostile session: a canonical valid request must be served correctly
			lingerNext = false
			var pr *refproto.PullResult
			cout, cerr := runParty("canonical", func(w *refproto.Wire, end *kernel.End) error {
				var err error
				pr, err = refproto.Pull(w, refproto.PullOpts{Daemon: true, Module: "ro", Args: []string{"--server", "--sender", "-r", ".", "ro/"}, ServerIsSender: true, MaxData: 1 << 20,
					Plan: func(int, *refproto.Entry, int32) (bool, []byte, int, int) { return true, nil, 0, 0 }})
				return err
			}, 0)
			good := cout == kernel.Finished && cerr == nil && pr != nil && pr.Stage == "done" && len(pr.Files) == len(c08Files())
			if good {
				for _, fr := range pr.Files {
					if !bytes.Equal(fr.Data, c08Files()[fr.Entry.Name]) || !fr.SumOK {
						good = false
					}
				}
			}
			if !good {
				st := ""
				if pr != nil {
					st = pr.Stage
				}
				res.Violate("daemon-stopped-serving", "not-serving-after:"+s.Kind, fmt.Sprintf("after hostile session %d (%s %+v args=%q) the canonical valid request failed: outcome %v, err %v, stage %s\nserver log: %s", i, s.Kind, s.Mut, s.Args, cout, cerr, st, tail(slog.String(), 800)))
				break
			}
			canonicalOK++
		}
		lingered = len(lingering)
		for _, e := range lingering {
			e.Close()
		}
		if len(lingering) > 0 && res.Violation == nil {
			if out := sim.Run(); out == kernel.Deadlock {
				res.Violate("handler-stuck", "handler-stuck:after-linger", "the lingering hostile peers have closed their connections but a handler is still blocked: "+sim.PendingSummary())
			}
		}
		res.Steps += sim.Stats.Steps
		res.Bytes += sim.Stats.Bytes
		res.Shapes = append(res.Shapes, sim.Shape())
		res.Hashes = append(res.Hashes, sim.Hash())
		res.Fault("cut", sim.Stats.CutFired)
		sim.Shutdown()
		cancel()
		ln.Close()
		synctest.Wait()
	})
	res.Sessions += len(sc.Sessions)
	if failure != "" && res.Violation == nil {
		res.Inconclusive = failure
		return
	}
	res.Fault("field_mutation", fired)
	res.Probe("hostile_sessions", len(sc.Sessions))
	res.Probe("canonical_sessions_ok", canonicalOK)
	res.Probe("lingering_stalled_peers", lingered)
	res.Probe("hostile_peer_gave_up_waiting", gaveUp)
	for _, s := range sc.Sessions {
		res.Probe("kind_"+s.Kind, 1)
	}
	res.NonTrivial = canonicalOK > 0
	res.Sample = map[string]any{"target": "daemon", "sessions": len(sc.Sessions), "first": sc.Sessions[0], "mutations_fired": fired}
}

func c08Client(t *testing.T, sc *C08Scenario, job *Job, res *Result) {
	lay := NewLayout(job.Scratch)
	entries, data := c08Entries()
	fired := 0
	for i := range sc.Sessions {
		s := &sc.Sessions[i]
		os.RemoveAll(lay.Dst)
		os.RemoveAll(lay.Src)
		os.MkdirAll(lay.Dst, 0755)
		for name, b := range c08Files() {
			p := filepath.Join(lay.Src, name)
			os.MkdirAll(filepath.Dir(p), 0755)
			os.WriteFile(p, b, 0644)
		}
		// a stale copy so that the generator sends signatures
		os.WriteFile(filepath.Join(lay.Dst, "alpha"), bytes.Repeat([]byte("alpha content "), 150), 0644)
		opts := s.Opts
		if len(opts) == 0 {
			opts = []string{"-r"}
		}
		var mut *refproto.Mutation
		if s.Mut != nil {
			m := *s.Mut
			mut = &m
		}
		cerr := &lockedBuf{max: 1 << 18}
		var copts = []rsyncclient.Option{rsyncclient.WithStderr(cerr), rsyncclient.DontRestrict()}
		push := s.Kind == "srv-push-mut"
		if push {
			copts = append(copts, rsyncclient.WithSender())
		}
		client, err := rsyncclient.New(strings.Fields(opts[0]), copts...)
		if err != nil {
			res.Invalid = err.Error()
			return
		}
		rr := &RefRun{Tr: sc.Tr, GuardReal: true, RefGivesUp: true}
		if push {
			rr.Real = func(ctx context.Context, end *kernel.End) error {
				_, err := client.RunDaemon(ctx, end, "mod/", []string{lay.Src + "/"})
				return err
			}
		} else {
			rr.Real = func(ctx context.Context, end *kernel.End) error {
				_, err := client.RunDaemon(ctx, end, "mod/", []string{lay.Dst})
				return err
			}
		}
		switch s.Kind {
		case "srv-pull-mut":
			rr.Ref = func(w *refproto.Wire) error {
				w.Mut = mut
				refproto.Send(w, refproto.SendOpts{Server: true, Daemon: true, Seed: 5, Entries: entries, Data: data, OptsFromArgs: true,
					Users: refproto.IDList{{ID: 1000, Name: "someuser"}}, Groups: refproto.IDList{{ID: 100, Name: "users"}}, Style: refproto.EncodeStyle{Compress: true}})
				return nil
			}
		case "srv-push-mut":
			rr.Ref = func(w *refproto.Wire) error {
				w.Mut = mut
				refproto.Pull(w, refproto.PullOpts{AsServer: true, Daemon: true, ServerSeed: 5, OptsFromArgs: true, MaxData: 1 << 20,
					Plan: c08Plan(s.Plan)})
				return nil
			}
		case "srv-bigframe":
			big := bytes.Repeat([]byte("0123456789abcdef"), (5<<20)/16)
			bentries := append(append([]refproto.Entry(nil), entries...), refproto.Entry{Name: "zz_big", Mode: refproto.SIFREG | 0644, Mtime: 1400000000, Size: int64(len(big))})
			bdata := map[string][]byte{"zz_big": big}
			for k, v := range data {
				bdata[k] = v
			}
			frame := s.Frame
			// 5 MiB in one-byte deliveries would only exhaust the simulator's step cap
			rr.Tr.MinChunk = 8192
			rr.Ref = func(w *refproto.Wire) error {
				if frame > 0 {
					w.MaxFrame = frame
				}
				refproto.Send(w, refproto.SendOpts{Server: true, Daemon: true, Seed: 5, Entries: bentries, Data: bdata, OptsFromArgs: true, Chunk: 4 << 20})
				return nil
			}
		case "srv-noise":
			rr.Ref = func(w *refproto.Wire) error {
				nb := noiseBytes(s.Noise, s.NoiseN)
				switch s.Stage {
				case 0:
				case 1:
					w.PutString("greeting", "@RSYNCD: 27\n")
				case 2:
					w.DaemonServerHandshake("")
				default:
					w.DaemonServerHandshake("")
					w.ServerStart(7, false)
				}
				w.PutBytes("noise", nb)
				w.Flush()
				return nil
			}
		default:
			res.Invalid = "session kind " + s.Kind
			return
		}
		out := RunWithRef(t, rr)
		res.AddRef(out)
		if mut != nil && mut.Fired {
			fired++
		}
		if out.Panic != "" {
			res.Violate("client-crash", panicSignature(out.Panic)+":"+s.Kind, fmt.Sprintf("session %d: %s mutation %+v noise stage %d\n%s", i, s.Kind, s.Mut, s.Stage, out.Panic))
			sc.Sessions = []C08Session{*s}
			return
		}
		if out.Outcome == kernel.Deadlock {
			res.Violate("client-stuck", "client-stuck:"+s.Kind, fmt.Sprintf("session %d (%s %+v): the hostile server has closed but the client does not return: %s", i, s.Kind, s.Mut, out.Pending))
			sc.Sessions = []C08Session{*s}
			return
		}
		res.Probe("kind_"+s.Kind, 1)
		if out.RealErr != nil {
			res.Probe("client_returned_error", 1)
		}
	}
	res.Fault("field_mutation", fired)
	res.Probe("hostile_sessions", len(sc.Sessions))
	res.NonTrivial = true
	res.Sample = map[string]any{"target": "client", "sessions": len(sc.Sessions), "first": sc.Sessions[0], "mutations_fired": fired}
}
