package props

import (
	"context"
	"fmt"
	"testing"
	"testing/synctest"

	"github.com/gokrazy/rsync/rsyncd"

	"verif/sim/kernel"
	"verif/sim/refproto"
)

// RefRun describes a session between one real party and the reference peer.
type RefRun struct {
	Tr Transport
	// Real runs the real code on its endpoint (client: rsyncclient; server:
	// HandleDaemonConn / HandleConnArgs). RealIsServer only labels the party.
	Real func(ctx context.Context, end *kernel.End) error
	// Serve, if set, is used instead of Real: the real daemon runs through
	// Server.Serve on a simulated listener (no recover, real accept loop).
	Serve      *rsyncd.Server
	RemoteAddr string
	// Ref runs the reference peer on a Wire over its endpoint.
	Ref    func(w *refproto.Wire) error
	Faults []Fault // Dir 0: ref→real... see applyRefFaults
	OnStep func(step int) error
	// RefIsClient: the reference peer holds the client endpoint (dials).
	RefIsClient bool
	TapToReal   func(b []byte) // bytes flowing from the reference peer to the real party
	TapFromReal func(b []byte) // bytes flowing from the real party to the reference peer
	GuardReal   bool           // recover panics of Real (library-call semantics)
	// RawRef, if set, runs instead of Ref directly on the endpoint (used to
	// put a second real party, e.g. the real client, into the "ref" slot; its
	// panics are recovered and reported in Panic).
	RawRef func(ctx context.Context, end *kernel.End) error
	// RefGivesUp: when nothing can move while the reference (hostile) peer is
	// still waiting, it closes its connection (a peer that stalls forever is
	// outside the guarantees); the real party must then finish.
	RefGivesUp bool
}

type RefResult struct {
	Outcome                    kernel.Outcome
	RealErr                    error
	RefErr                     error
	RealDone                   bool
	RefDone                    bool
	Panic                      string
	Stats                      kernel.Stats
	Hash                       uint64
	Shape                      uint64
	Tape                       []uint32
	Pending                    string
	HookErr                    error
	BytesToReal, BytesFromReal int64
	RefGaveUp                  bool
	Harness                    string // harness trouble: the run is inconclusive, never a violation
}

// RunWithRef executes the run in a fresh bubble.
func RunWithRef(t *testing.T, rr *RefRun) (res *RefResult) {
	res = &RefResult{}
	defer func() {
		if r := recover(); r != nil {
			res.Harness = fmt.Sprintf("harness/bubble panic: %v", r)
			res.Outcome = kernel.Deadlock
		}
	}()
	synctest.Test(t, func(t *testing.T) {
		sim := rr.Tr.NewSim()
		sim.OnStep = rr.OnStep
		ctx, cancel := context.WithCancel(context.Background())
		defer cancel()
		var cEnd, sEnd *kernel.End
		var ln *kernel.Listener
		if rr.Serve != nil {
			ln = sim.Listen("10.9.9.9:873")
			addr := rr.RemoteAddr
			if addr == "" {
				addr = "192.0.2.7:40000"
			}
			cEnd = ln.Dial(addr, rr.Tr.CapCS, rr.Tr.CapSC)
			go rr.Serve.Serve(ctx, ln)
		} else {
			cEnd, sEnd = sim.NewConn("conn", rr.Tr.CapCS, rr.Tr.CapSC)
		}
		refEnd, realEnd := sEnd, cEnd
		if rr.RefIsClient || rr.Serve != nil {
			refEnd, realEnd = cEnd, sEnd
		}
		// taps: pipe written by ref = refEnd.WPipe()
		if rr.TapToReal != nil {
			refEnd.WPipe().Tap = rr.TapToReal
		}
		if rr.TapFromReal != nil {
			refEnd.RPipe().Tap = rr.TapFromReal
		}
		var realParty *kernel.Party
		var realPanic string
		if rr.Serve == nil {
			fn := func() error { return rr.Real(ctx, realEnd) }
			if rr.GuardReal {
				fn = guard("real", &realPanic, fn)
			}
			realParty = sim.Go("real", fn, realEnd)
		}
		refFn := func() error {
			w := refproto.NewWire(refEnd, refEnd)
			err := rr.Ref(w)
			w.Flush()
			return err
		}
		if rr.RawRef != nil {
			refFn = guard("client", &realPanic, func() error { return rr.RawRef(ctx, refEnd) })
		}
		refParty := sim.Go("ref", refFn, refEnd)
		for _, f := range rr.Faults {
			pipe := refEnd.WPipe() // Dir 0: ref → real
			if f.Dir == 1 {
				pipe = refEnd.RPipe()
			}
			switch f.Kind {
			case "cut":
				pipe.CutAt(f.At)
			case "flip":
				pipe.FlipAt(f.At, uint8(f.Bit))
			case "freeze":
				pipe.FreezeReaderAt(f.At)
			}
		}
		res.Outcome = sim.Run()
		if res.Outcome == kernel.Deadlock && rr.RefGivesUp && !refParty.Done() {
			res.RefGaveUp = true
			refEnd.Close()
			res.Outcome = sim.Run()
		}
		res.Stats, res.Hash, res.Shape, res.Tape = sim.Stats, sim.Hash(), sim.Shape(), sim.Tape().Rec
		res.HookErr = sim.HookErr
		if res.Outcome != kernel.Finished {
			res.Pending = sim.PendingSummary()
		}
		res.BytesToReal, res.BytesFromReal = refEnd.WPipe().Accepted, refEnd.RPipe().Accepted
		if realParty != nil {
			res.RealDone, res.RealErr = realParty.Done(), realParty.Err()
		}
		res.RefDone, res.RefErr = refParty.Done(), refParty.Err()
		sim.Shutdown()
		cancel()
		if ln != nil {
			ln.Close()
		}
		synctest.Wait()
		if realParty != nil && !res.RealDone {
			res.RealErr = realParty.Err()
		}
		if !res.RefDone {
			res.RefErr = refParty.Err()
		}
		res.Panic = realPanic
	})
	return res
}

func (r *Result) AddRef(s *RefResult) {
	if s.Harness != "" {
		r.Inconclusive = s.Harness
	}
	if s.Outcome == kernel.StepBudget {
		// the simulator's own step cap: every error the parties report after
		// it is the shutdown's doing. None of the checks built on RunWithRef is
		// about termination (C18 is, and runs whole sessions with a step cap
		// scaled to the volume).
		r.Inconclusive = "step budget of the simulator exhausted: " + s.Pending
	}
	r.Sessions++
	r.Steps += s.Stats.Steps
	r.Bytes += s.Stats.Bytes
	r.SimTimeMs += s.Stats.SimTime.Milliseconds()
	r.Shapes = append(r.Shapes, s.Shape)
	r.Hashes = append(r.Hashes, s.Hash)
	r.Fault("cut", s.Stats.CutFired)
	r.Fault("flip", s.Stats.FlipFired)
	r.Fault("freeze", s.Stats.FreezeFired)
}
