package props

import (
	"context"
	"fmt"
	"os"
	"os/user"
	"path/filepath"
	"strconv"
	"strings"
	"testing"

	"github.com/gokrazy/rsync/rsyncclient"

	"verif/sim/fstree"
	"verif/sim/kernel"
	"verif/sim/model"
	"verif/sim/refproto"
)

// C11: requested metadata is reproduced at the destination.

type C11Scenario struct {
	Mode    string       `json:"mode"` // sync | idmap
	Sync    SyncScenario `json:"sync"`
	NonRoot bool         `json:"non_root,omitempty"` // generated for an unprivileged worker
	// idmap mode: the reference sender names remote ids
	RemoteUID  int32  `json:"remote_uid,omitempty"`
	RemoteUser string `json:"remote_user,omitempty"`
	RemoteGID  int32  `json:"remote_gid,omitempty"`
	RemoteGrp  string `json:"remote_group,omitempty"`
}

type c11 struct{}

func init() { Register("C11", c11{}) }

func (c11) NewScenario() any { return &C11Scenario{} }

func (c11) Generate(seed uint64, tier string, index int) any {
	g := NewGen(kernel.Derive(seed, "workload"), tier == "thorough")
	nonRoot := os.Getuid() != 0
	if !nonRoot && index%8 == 7 {
		sc := &C11Scenario{Mode: "idmap"}
		sc.Sync.Opts = []string{"-r", "-o", "-g"}
		sc.Sync.Tr = g.TransportFor(12, 1<<16)
		switch g.R.Intn(3) {
		case 0:
			sc.RemoteUID, sc.RemoteUser = 4242, "nobody"
			sc.RemoteGID, sc.RemoteGrp = 4343, "nogroup"
		case 1:
			sc.RemoteUID, sc.RemoteUser = 4242, "no-such-user-xyz"
			sc.RemoteGID, sc.RemoteGrp = 4343, "no-such-group-xyz"
		default:
			sc.RemoteUID, sc.RemoteUser = 4242, "daemon"
			sc.RemoteGID, sc.RemoteGrp = 4343, "daemon"
		}
		return sc
	}
	var opts []string
	opts = append(opts, "-r")
	for _, o := range []string{"-p", "-t", "-l", "-D", "-o", "-g"} {
		if g.R.Bool() {
			opts = append(opts, o)
		}
	}
	arr := []string{"A1", "A2", "A3p", "A3s"}[g.R.Intn(4)]
	to := TreeOpts{MaxEntries: 12, ByteBudget: 32 << 10, PlainNames: g.R.Intn(3) != 0, Symlinks: true, Specials: !nonRoot, Devices: !nonRoot, MaxDepth: 3}
	sc := genSync(g, arr, opts, to, false)
	sc.ModuleFS = false
	sc.Sources = []SrcArg{{Path: "", Slash: true}}
	SanitizeKnown(&sc.Src)
	for i := range sc.Src.Entries {
		e := &sc.Src.Entries[i]
		if len(e.Path) > 200 || !utf8Valid(string(e.Path)) && e.Type == "d" {
			e.Path = fstree.Name(fmt.Sprintf("r%d", i))
		}
		if e.Type != "l" {
			e.Perm = uint32(g.R.Intn(0o1000))
			switch g.R.Intn(4) {
			case 0:
				e.Perm &^= 0o200 // lacking owner write permission
			case 1:
				e.Perm = []uint32{0, 0o777, 0o444, 0o111, 0o555, 0o400}[g.R.Intn(6)]
			}
		}
		if nonRoot {
			// the unprivileged sender must be able to read what it sends
			if e.Type == "d" {
				e.Perm |= 0o500
			} else {
				e.Perm |= 0o400
			}
		} else if g.R.Intn(4) == 0 {
			e.Uid, e.Gid = []int{65534, 1, 4242, 0}[g.R.Intn(4)], []int{65534, 1, 4242, 0}[g.R.Intn(4)]
		}
	}
	// nested content below directories without owner write permission
	var ls []listedSrc
	o := model.ParseOpts(opts)
	for _, l := range model.Select(fstree.SpecSnap(&sc.Src, false), modelArgs(sc.Sources), "src", arr == "A1", o) {
		if e := sc.Src.Find(l.SrcPath); e != nil {
			ls = append(ls, listedSrc{Name: l.Name, Entry: *e})
		}
	}
	sc.Dst = g.PriorDest(ls, true, 0)
	for i := range sc.Dst.Entries {
		e := &sc.Dst.Entries[i]
		if e.Type == "f" && g.R.Bool() {
			e.Perm = uint32(0o600 | g.R.Intn(0o200)) // its own permissions
		}
		if e.Type == "d" {
			e.Perm |= 0o700
		}
	}
	min := 0
	if arr == "A1" || arr == "A2" {
		min = 12
	}
	sc.Tr = g.TransportFor(min, 2*treeBytes(&sc.Src)+treeBytes(&sc.Dst))
	if arr != "A4" && g.R.Intn(6) == 0 {
		// prior state left by a killed earlier sync: files renamed into place
		// but not yet re-timed/re-owned, directories still temporarily writable
		sc.Kill = &KillPoint{PerMille: g.R.Intn(1001)}
	}
	return &C11Scenario{Mode: "sync", Sync: sc, NonRoot: nonRoot}
}

func (c11) Run(t *testing.T, scenario any, job *Job, res *Result) {
	sc := scenario.(*C11Scenario)
	if sc.Mode == "idmap" {
		c11IDMap(t, sc, job, res)
		return
	}
	lay := NewLayout(job.Scratch)
	o := model.ParseOpts(sc.Sync.Opts)
	root := os.Getuid() == 0
	out, err := semRun(t, &sc.Sync, lay, SessionHooks{})
	if err != nil {
		res.Invalid = err.Error()
		return
	}
	res.Merge(out.Pre)
	res.AddSession(out.S)
	tag := ":" + receiverSide(sc.Sync.Arr)
	if !sessionSucceeded(res, out.S, "") {
		if res.Violation == nil {
			return // inconclusive (harness trouble)
		}
		res.Violation.Signature += tag
		if !root {
			res.Violation.Signature += ":unprivileged"
		}
		setTape(&sc.Sync.Tr, out.S)
		return
	}
	fail := func(sig, detail string) {
		res.Violate("metadata", sig+tag, fmt.Sprintf("opts=%v arr=%s root=%v: %s", sc.Sync.Opts, sc.Sync.Arr, root, detail))
		setTape(&sc.Sync.Tr, out.S)
	}
	nchecked, nro := 0, 0
	for _, l := range listedFor(&sc.Sync, lay, out.Src) {
		if !model.WouldCreate(l.Node, o) || l.Name == "." {
			continue
		}
		a, ok := out.After[l.Name]
		if !ok {
			fail("missing", fmt.Sprintf("entry %q (%s) missing at the destination", l.Name, l.Node.Type))
			return
		}
		nchecked++
		s := l.Node
		if a.Type != s.Type {
			fail("type", fmt.Sprintf("%q: destination type %s, source type %s", l.Name, a.Type, s.Type))
			return
		}
		b, had := out.Before[l.Name]
		if o.Perms && s.Type != "l" && a.Perm&0o777 != s.Perm&0o777 {
			sig := "perm-with-p"
			if s.Type == "d" {
				sig = "dir-perm-with-p"
			}
			fail(sig, fmt.Sprintf("%q (%s): -p given, destination mode %o, source mode %o", l.Name, s.Type, a.Perm, s.Perm))
			return
		}
		if !o.Perms && s.Type == "f" && had && b.Type == "f" && a.Perm != b.Perm {
			fail("perm-without-p", fmt.Sprintf("%q: no -p, existing destination file had mode %o, now %o (source %o)", l.Name, b.Perm, a.Perm, s.Perm))
			return
		}
		if o.Times && s.Type == "f" && a.Mtime != s.Mtime {
			fail("mtime", fmt.Sprintf("%q: -t given, destination mtime %d, source %d", l.Name, a.Mtime, s.Mtime))
			return
		}
		if o.Links && s.Type == "l" && a.Target != s.Target {
			fail("link-target", fmt.Sprintf("%q: destination target %q, source %q", l.Name, a.Target, s.Target))
			return
		}
		if o.Devices && (s.Type == "chr" || s.Type == "blk") && a.Rdev != s.Rdev {
			fail("rdev", fmt.Sprintf("%q: destination rdev %d, source %d", l.Name, a.Rdev, s.Rdev))
			return
		}
		if root && o.Owner && a.Uid != s.Uid {
			fail("uid", fmt.Sprintf("%q: -o as root, destination uid %d, source %d", l.Name, a.Uid, s.Uid))
			return
		}
		if root && o.Group && a.Gid != s.Gid {
			fail("gid", fmt.Sprintf("%q: -g as root, destination gid %d, source %d", l.Name, a.Gid, s.Gid))
			return
		}
		if s.Type == "d" && s.Perm&0o200 == 0 {
			nro++
		}
	}
	res.Probe("entries_checked", nchecked)
	res.Probe("dirs_without_owner_write", nro)
	if !root {
		res.Probe("unprivileged_runs", 1)
	}
	res.Probe("arr_"+sc.Sync.Arr, 1)
	res.NonTrivial = nchecked > 1
	res.Sample = map[string]any{"arr": sc.Sync.Arr, "opts": sc.Sync.Opts, "root": root, "entries_checked": nchecked, "readonly_dirs": nro}
}

func c11IDMap(t *testing.T, sc *C11Scenario, job *Job, res *Result) {
	if os.Getuid() != 0 {
		res.Invalid = "id mapping needs root"
		return
	}
	if sc.RemoteUID <= 0 || sc.RemoteGID <= 0 || sc.RemoteUser == "" || sc.RemoteGrp == "" || len(sc.RemoteUser) > 255 || len(sc.RemoteGrp) > 255 {
		res.Invalid = "id 0 is never named in an id list (it terminates the list)"
		return
	}
	lay := NewLayout(job.Scratch)
	os.MkdirAll(lay.Dst, 0755)
	entries := []refproto.Entry{
		{Name: ".", Mode: refproto.SIFDIR | 0755, Mtime: 1500000000, Size: 4096, Flags: refproto.XTopDir},
		{Name: "mapped", Mode: refproto.SIFREG | 0644, Mtime: 1500000000, Size: 5, UID: sc.RemoteUID, GID: sc.RemoteGID},
		{Name: "rootowned", Mode: refproto.SIFREG | 0644, Mtime: 1500000000, Size: 5},
		{Name: "unnamed", Mode: refproto.SIFREG | 0644, Mtime: 1500000000, Size: 5, UID: 5151, GID: 5252},
	}
	data := map[string][]byte{"mapped": []byte("hello"), "rootowned": []byte("world"), "unnamed": []byte("12345")}
	cerr := &lockedBuf{max: 1 << 16}
	client, err := rsyncclient.New(sc.Sync.Opts, rsyncclient.WithStderr(cerr), rsyncclient.DontRestrict())
	if err != nil {
		res.Invalid = err.Error()
		return
	}
	out := RunWithRef(t, &RefRun{Tr: sc.Sync.Tr, GuardReal: true,
		Real: func(ctx context.Context, end *kernel.End) error {
			_, err := client.RunDaemon(ctx, end, "mod/", []string{lay.Dst})
			return err
		},
		Ref: func(w *refproto.Wire) error {
			_, err := refproto.Send(w, refproto.SendOpts{Server: true, Daemon: true, Seed: 99, Entries: entries, Data: data, OptsFromArgs: true,
				Users: refproto.IDList{{ID: sc.RemoteUID, Name: sc.RemoteUser}}, Groups: refproto.IDList{{ID: sc.RemoteGID, Name: sc.RemoteGrp}}})
			return err
		}})
	res.AddRef(out)
	if out.Panic != "" || out.Outcome != kernel.Finished || out.RealErr != nil || out.RefErr != nil {
		res.Violate("session-error", "idmap-session:"+errSignature(firstErr(out.RealErr, out.RefErr, fmt.Errorf("%v %s", out.Outcome, out.Panic))), fmt.Sprintf("real: %v ref: %v %v %s\n%s", out.RealErr, out.RefErr, out.Outcome, out.Pending, tail(cerr.String(), 600)))
		return
	}
	wantUID, wantGID := uint32(sc.RemoteUID), uint32(sc.RemoteGID)
	if u, err := user.Lookup(sc.RemoteUser); err == nil {
		v, _ := strconv.Atoi(u.Uid)
		wantUID = uint32(v)
		res.Probe("remote_user_has_local_name", 1)
	}
	if g, err := user.LookupGroup(sc.RemoteGrp); err == nil {
		v, _ := strconv.Atoi(g.Gid)
		wantGID = uint32(v)
		res.Probe("remote_group_has_local_name", 1)
	}
	n, err := fstree.LstatNode(filepath.Join(lay.Dst, "mapped"), false)
	if err != nil {
		res.Violate("metadata", "idmap-missing", err.Error())
		return
	}
	if n.Uid != wantUID {
		res.Violate("metadata", "uid-name-mapping", fmt.Sprintf("remote uid %d is named %q by the sender; local id for that name is %d, destination file is owned by %d", sc.RemoteUID, sc.RemoteUser, wantUID, n.Uid))
		return
	}
	if n.Gid != wantGID {
		res.Violate("metadata", "gid-name-mapping", fmt.Sprintf("remote gid %d is named %q by the sender; local id for that name is %d, destination file has group %d", sc.RemoteGID, sc.RemoteGrp, wantGID, n.Gid))
		return
	}
	u, _ := fstree.LstatNode(filepath.Join(lay.Dst, "unnamed"), false)
	if u.Uid != 5151 || u.Gid != 5252 {
		res.Violate("metadata", "unnamed-id", fmt.Sprintf("ids without a name must be used numerically: got %d/%d, want 5151/5252", u.Uid, u.Gid))
		return
	}
	res.NonTrivial = true
	res.Sample = map[string]any{"mode": "idmap", "remote_user": sc.RemoteUser, "remote_uid": sc.RemoteUID, "local_uid": wantUID}
}

var _ = strings.Contains
