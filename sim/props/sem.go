package props

import (
	"fmt"
	"path/filepath"
	"sort"
	"strings"
	"testing"
	"unicode/utf8"

	"github.com/gokrazy/rsync/rsyncd"

	"verif/sim/fstree"
	"verif/sim/kernel"
	"verif/sim/model"
	"verif/sim/simfs"
)

// semRun prepares the scenario, runs it and returns the snapshots.
type semOut struct {
	Src, Before, After fstree.Snap
	S                  *SessionResult
	Root               string
	Pre                *Result // counters of the kill-state phase, if any
}

func semRun(t *testing.T, sc *SyncScenario, lay Layout, hooks SessionHooks) (*semOut, error) {
	if err := prepare(sc, lay); err != nil {
		return nil, err
	}
	src, err := fstree.Snapshot(lay.Src)
	if err != nil {
		return nil, err
	}
	root := destRootFor(sc, lay)
	var pre *Result
	if sc.Kill != nil {
		var kr Result
		pre = &kr
		if !killedState(t, sc, lay, &kr) {
			if kr.Inconclusive != "" {
				return nil, fmt.Errorf("inconclusive: %s", kr.Inconclusive)
			}
			return nil, fmt.Errorf("%s", kr.Invalid)
		}
	}
	before, _ := fstree.Snapshot(root)
	s := RunSyncSession(t, sc, lay, hooks)
	after, _ := fstree.Snapshot(root)
	return &semOut{Src: src, Before: before, After: after, S: s, Root: root, Pre: pre}, nil
}

func listedFor(sc *SyncScenario, lay Layout, src fstree.Snap) []model.Listed {
	o := model.ParseOpts(sc.Opts)
	return model.Select(src, modelArgs(sc.Sources), filepath.Base(lay.Src), sc.Arr == "A1", o)
}

func names(s fstree.Snap) []string { return s.Paths() }

func sortedKeys(m map[string]bool) []string {
	var out []string
	for k := range m {
		out = append(out, k)
	}
	sort.Strings(out)
	return out
}

// ---- C09 ---------------------------------------------------------------------------

type C09Scenario struct {
	Sync SyncScenario `json:"sync"`
	// IOErrDir: (A1 only) listing this source directory fails on the simulated
	// sender disk, which raises the sender's I/O-error flag: nothing may be deleted.
	IOErrDir string `json:"ioerr_dir,omitempty"`
	// Vanish: (A1 only) this source entry vanishes between readdir and lstat on
	// the simulated sender disk: a read error as well, so nothing may be deleted.
	Vanish string `json:"vanish,omitempty"`
	// Obstacle: (without --delete) the destination holds a NON-EMPTY directory
	// at this path where the source has a regular file. The transfer may fail,
	// but nothing below the directory may disappear.
	Obstacle string `json:"obstacle,omitempty"`
}

type c09 struct{}

func init() { Register("C09", c09{}) }

func (c09) NewScenario() any { return &C09Scenario{} }

// extraneous populates the destination with entries that are not in the source,
// in every sort position relative to listed names, nested, of several types.
func genExtraneous(g *Gen, src *fstree.Tree, dst *fstree.Tree, n int) {
	var dirs []string
	dirs = append(dirs, "")
	for _, e := range src.Entries {
		if e.Type == "d" {
			dirs = append(dirs, string(e.Path))
		}
	}
	have := map[string]bool{}
	for _, e := range src.Entries {
		have[string(e.Path)] = true
	}
	for _, e := range dst.Entries {
		have[string(e.Path)] = true
	}
	for i := 0; i < n; i++ {
		parent := dirs[g.R.Intn(len(dirs))]
		// names sorting before, between and after typical names
		pre := []string{"!", "0", "A", "M", "a", "m", "z", "~", "zz", "aa"}[g.R.Intn(10)]
		name := pre + "x" + g.NameComponent(true)
		p := name
		if parent != "" {
			p = parent + "/" + name
		}
		if g.R.Intn(4) == 0 && len(src.Entries) > 0 {
			// a name that is a proper prefix (or an extension) of a listed name:
			// "notes" next to "notes.txt", "lib" next to "libfoo/"
			q := string(src.Entries[g.R.Intn(len(src.Entries))].Path)
			base := filepath.Base(q)
			if g.R.Bool() && len(base) > 1 {
				base = base[:1+g.R.Intn(len(base)-1)]
			} else {
				base += []string{"x", ".bak", "-2", "~"}[g.R.Intn(4)]
			}
			if utf8.ValidString(base) {
				// (a cut through a multi-byte sequence would make a name that is not
				// valid UTF-8: directories of that kind are the recorded C01 finding -
				// io/fs path validation - here on the delete walk's side)
				p = filepath.Join(filepath.Dir(q), base)
			}
		}
		if have[p] {
			continue
		}
		have[p] = true
		switch g.R.Intn(6) {
		case 0:
			dst.Entries = append(dst.Entries, fstree.Entry{Path: fstree.Name(p), Type: "d", Perm: []uint32{0o755, 0o755, 0o555, 0o500, 0o700, 0o711}[g.R.Intn(6)], Mtime: 1_400_000_000})
			// nested extraneous content
			for j := 0; j < g.R.Intn(3); j++ {
				q := p + "/" + g.NameComponent(true)
				if !have[q] {
					have[q] = true
					dst.Entries = append(dst.Entries, fstree.Entry{Path: fstree.Name(q), Type: "f", Perm: 0o644, Mtime: 1_400_000_000, Content: g.Content(g.R.Int63n(500))})
				}
			}
		case 1:
			// dangling, or pointing at an existing directory (".", a sibling directory)
			tgt := []string{"nowhere", ".", "..", "."}[g.R.Intn(4)]
			if len(dirs) > 1 && g.R.Bool() {
				tgt = "./" + filepath.Base(dirs[1+g.R.Intn(len(dirs)-1)])
			}
			dst.Entries = append(dst.Entries, fstree.Entry{Path: fstree.Name(p), Type: "l", Perm: 0o777, Mtime: 1_400_000_000, Target: fstree.Name(tgt)})
		case 2:
			dst.Entries = append(dst.Entries, fstree.Entry{Path: fstree.Name(p), Type: "fifo", Perm: 0o644, Mtime: 1_400_000_000})
		default:
			dst.Entries = append(dst.Entries, fstree.Entry{Path: fstree.Name(p), Type: "f", Perm: 0o644, Mtime: 1_400_000_000, Content: g.Content(g.R.Int63n(800))})
		}
	}
}

func (c09) Generate(seed uint64, tier string, index int) any {
	g := NewGen(kernel.Derive(seed, "workload"), tier == "thorough")
	arr := []string{"A1", "A1", "A2", "A3p", "A3s", "A4"}[g.R.Intn(6)]
	opts := []string{"-rt"}
	del := g.R.Intn(5) != 0
	if del {
		opts = append(opts, "--delete")
	}
	to := TreeOpts{MaxEntries: 10, ByteBudget: 64 << 10, PlainNames: true, Symlinks: true, FixedPerms: true}
	sc := genSync(g, arr, opts, to, false)
	sc.ModuleFS = false
	sc.Sources = []SrcArg{{Path: "", Slash: true}}
	// prior destination: some listed entries present + extraneous ones
	var ls []listedSrc
	for _, l := range model.Select(fstree.SpecSnap(&sc.Src, false), modelArgs(sc.Sources), "src", arr == "A1", model.ParseOpts(opts)) {
		if e := sc.Src.Find(l.SrcPath); e != nil {
			ls = append(ls, listedSrc{Name: l.Name, Entry: *e})
		}
	}
	sc.Dst = g.PriorDest(ls, false, 0)
	genExtraneous(g, &sc.Src, &sc.Dst, g.R.Intn(7))
	// exclude rules that protect extraneous entries (and may hide source entries)
	if g.R.Intn(3) == 0 && len(sc.Dst.Entries) > 0 {
		e := sc.Dst.Entries[g.R.Intn(len(sc.Dst.Entries))]
		rule := filepath.Base(string(e.Path))
		if p := string(e.Path); strings.Contains(p, "/") && g.R.Bool() {
			// a rule with a slash names one path; used only when no other path
			// of either tree ends in it (where tail matching and exact
			// comparison agree)
			unique := true
			for _, t := range []*fstree.Tree{&sc.Src, &sc.Dst} {
				for _, o := range t.Entries {
					if q := string(o.Path); q != p && strings.HasSuffix(q, "/"+p) {
						unique = false
					}
				}
			}
			if unique {
				rule = p
			}
		}
		sc.Opts = append(sc.Opts, "--exclude="+rule)
	}
	min := 0
	if arr == "A1" || arr == "A2" {
		min = 12
	}
	sc.Tr = g.TransportFor(min, 2*treeBytes(&sc.Src)+treeBytes(&sc.Dst))
	out := &C09Scenario{Sync: sc}
	if !del && g.R.Bool() {
		for _, e := range sc.Src.Entries {
			if e.Type != "f" {
				continue
			}
			p := string(e.Path)
			var keep []fstree.Entry
			for _, d := range out.Sync.Dst.Entries {
				if dp := string(d.Path); dp != p && !strings.HasPrefix(dp, p+"/") {
					keep = append(keep, d)
				}
			}
			keep = append(keep,
				fstree.Entry{Path: fstree.Name(p), Type: "d", Perm: 0o755, Mtime: 1_500_000_000},
				fstree.Entry{Path: fstree.Name(p + "/precious"), Type: "f", Perm: 0o644, Mtime: 1_500_000_000, Content: g.Content(100)},
				fstree.Entry{Path: fstree.Name(p + "/sub/deeper"), Type: "f", Perm: 0o600, Mtime: 1_500_000_001, Content: g.Content(10)})
			out.Sync.Dst.Entries = keep
			out.Obstacle = p
			// the transfer is expected to fail; whether a failing transfer
			// terminates on tiny buffers is C18's business (recorded finding)
			for _, c := range []*int{&out.Sync.Tr.CapCS, &out.Sync.Tr.CapSC} {
				if *c >= 0 && *c < 64<<10 {
					*c = 64 << 10
				}
			}
			return out
		}
	}
	if arr != "A4" && g.R.Intn(6) == 0 {
		// prior state = what a kill in the middle of an earlier sync left
		// behind: its temporary files are extraneous entries like any other
		out.Sync.Kill = &KillPoint{PerMille: g.R.Intn(1001)}
		return out
	}
	if arr == "A1" && del && g.R.Intn(3) == 0 {
		if g.R.Bool() && len(sc.Src.Entries) > 0 {
			out.Vanish = string(sc.Src.Entries[g.R.Intn(len(sc.Src.Entries))].Path)
		} else {
			for _, e := range sc.Src.Entries {
				if e.Type == "d" {
					out.IOErrDir = string(e.Path)
					break
				}
			}
		}
	}
	return out
}

func (c09) Run(t *testing.T, scenario any, job *Job, res *Result) {
	sc := scenario.(*C09Scenario)
	lay := NewLayout(job.Scratch)
	// a canary next to the destination: nothing outside may be removed
	hooks := SessionHooks{}
	var sfs *simfs.FS
	if sc.IOErrDir != "" || sc.Vanish != "" {
		if sc.Sync.Arr != "A1" {
			res.Invalid = "sender-disk faults need A1"
			return
		}
		sfs = simfs.New(lay.Src, simfs.Plan{FailReadDir: sc.IOErrDir, VanishInfo: sc.Vanish})
		hooks.Modules = []rsyncd.Module{{Name: "mod", FS: sfs}}
	}
	out, err := semRun(t, &sc.Sync, lay, hooks)
	if err != nil {
		res.Invalid = err.Error()
		return
	}
	res.Merge(out.Pre)
	res.AddSession(out.S)
	o := model.ParseOpts(sc.Sync.Opts)
	if o.Delete && !o.Recursive {
		res.Invalid = "--delete without -r is outside the property's domain"
		return
	}
	tag := ":" + arrDirection(sc.Sync.Arr)
	if sc.Obstacle != "" {
		if o.Delete {
			res.Invalid = "obstacle mode is the control without --delete"
			return
		}
		if _, ok := out.Before[sc.Obstacle+"/precious"]; !ok {
			res.Invalid = "obstacle not materialised"
			return
		}
		if out.S.Harness != "" {
			return
		}
		if out.S.Panic != "" {
			sessionSucceeded(res, out.S, "")
			return
		}
		if out.S.Outcome != kernel.Finished {
			res.Probe("obstacle_runs_not_finished", 1) // termination of failing transfers: C18
		}
		// the session may fail (a non-empty directory cannot make room for a
		// file), but without --delete no destination path may disappear
		for _, p := range names(out.Before) {
			if _, ok := out.After[p]; !ok {
				res.Violate("deleted-without-delete", "deleted-without-delete:obstacle"+tag, fmt.Sprintf("--delete was not given; the destination had a non-empty directory at %q where the source has a regular file; afterwards %q is gone (client err=%v, server err=%v)", sc.Obstacle, p, out.S.ClientErr, out.S.ServerErr))
				setTape(&sc.Sync.Tr, out.S)
				return
			}
		}
		res.Probe("obstacle_runs", 1)
		if out.S.ClientErr != nil || out.S.ServerErr != nil {
			res.Probe("obstacle_runs_refused", 1)
		}
		res.NonTrivial = true
		res.Sample = map[string]any{"arr": sc.Sync.Arr, "obstacle": sc.Obstacle}
		return
	}
	if sfs != nil {
		if sfs.ReadDirFails == 0 && sfs.VanishCount == 0 {
			res.Invalid = "injected sender-disk fault did not fire"
			return
		}
		res.Fault("sender_readdir_error", sfs.ReadDirFails)
		res.Fault("sender_entry_vanished", sfs.VanishCount)
		if out.S.Outcome != kernel.Finished || out.S.Panic != "" {
			sessionSucceeded(res, out.S, "")
			return
		}
		// with the I/O error flag raised nothing at all may be removed
		for _, p := range names(out.Before) {
			if _, ok := out.After[p]; !ok {
				res.Violate("deleted-despite-io-error", "deleted-despite-io-error", fmt.Sprintf("the sender hit read errors (listing %q failed / entry %q vanished between readdir and lstat) but %q was removed; client err=%v", sc.IOErrDir, sc.Vanish, p, out.S.ClientErr))
				return
			}
		}
		res.Probe("io_error_runs", 1)
		res.NonTrivial = len(out.Before) > 2
		res.Sample = map[string]any{"arr": "A1", "ioerr_dir": sc.IOErrDir, "dst_entries": len(out.Before)}
		return
	}
	if !sessionSucceeded(res, out.S, "") {
		if res.Violation == nil {
			return // inconclusive (harness trouble)
		}
		res.Violation.Signature += tag
		setTape(&sc.Sync.Tr, out.S)
		return
	}
	listed := map[string]bool{}
	for _, l := range listedFor(&sc.Sync, lay, out.Src) {
		listed[l.Name] = true
	}
	var extraneous, removed, kept []string
	for _, p := range names(out.Before) {
		if p == "." || listed[p] {
			continue
		}
		// descendants of listed non-directories are replaced implicitly; skip
		extraneous = append(extraneous, p)
	}
	protected := func(p string) bool {
		// protected by an exclude rule: the entry or one of its parents matches
		for q := p; q != "." && q != "/"; q = filepath.Dir(q) {
			if model.Excluded(o.Rules, q) {
				return true
			}
		}
		return false
	}
	for _, p := range extraneous {
		if _, ok := out.After[p]; ok {
			kept = append(kept, p)
		} else {
			removed = append(removed, p)
		}
	}
	res.Probe("extraneous_entries", len(extraneous))
	res.Probe("arr_"+sc.Sync.Arr, 1)
	fail := func(kind, sig, detail string) {
		res.Violate(kind, sig+tag, fmt.Sprintf("%s\narr=%s opts=%v\nlisted=%q\nextraneous before=%q\nremoved=%q kept=%q", detail, sc.Sync.Arr, sc.Sync.Opts, sortedKeys(listed), extraneous, removed, kept))
		setTape(&sc.Sync.Tr, out.S)
	}
	// listed entries are never removed
	for p := range listed {
		if _, was := out.Before[p]; was {
			if _, ok := out.After[p]; !ok {
				fail("listed-removed", "listed-removed", fmt.Sprintf("entry %q is in the sender's list but was removed", p))
				return
			}
		}
	}
	if !o.Delete {
		if len(removed) > 0 {
			fail("deleted-without-delete", "deleted-without-delete", fmt.Sprintf("--delete was not given but %q disappeared", removed))
			return
		}
		res.Probe("control_runs_without_delete", 1)
	} else {
		hasProtectedChild := func(p string) bool {
			for _, q := range names(out.Before) {
				if strings.HasPrefix(q, p+"/") && protected(q) {
					return true
				}
			}
			return false
		}
		for _, p := range kept {
			if !protected(p) && !(out.Before[p].Type == "d" && hasProtectedChild(p)) {
				fail("extraneous-kept", "extraneous-kept", fmt.Sprintf("extraneous entry %q survived --delete (not protected by any exclude rule)", p))
				return
			}
		}
		for _, p := range removed {
			if protected(p) {
				fail("protected-deleted", "protected-deleted", fmt.Sprintf("entry %q is protected by an exclude rule but was deleted", p))
				return
			}
		}
		res.Probe("removed_entries", len(removed))
		res.Probe("protected_kept", len(kept))
	}
	res.NonTrivial = o.Delete && len(extraneous) >= 2
	res.Sample = map[string]any{"arr": sc.Sync.Arr, "opts": sc.Sync.Opts, "listed": len(listed), "extraneous": extraneous, "removed": removed, "kept": kept}
}

func arrDirection(arr string) string {
	switch arr {
	case "A1", "A3p":
		return "pull"
	case "A2", "A3s":
		return "push"
	}
	return "local"
}

var _ = strings.HasPrefix
