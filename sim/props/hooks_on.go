//go:build verif

package props

import (
	"net"

	"github.com/gokrazy/rsync/rsynccmd"
)

// pinSeed makes every server session in this process use the given checksum
// seed (through the guarded hook in /repo, build tag verif).
func pinSeed(seed int32) { rsynccmd.VerifSetSeed(func(int32) int32 { return seed }) }

func setListeners(f func([]net.Listener) []net.Listener) { rsynccmd.VerifSetListeners(f) }

func relaxLandlock() { rsynccmd.VerifRelaxLandlock() }

const hooksEnabled = true
