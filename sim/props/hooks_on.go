//go:build verif

package props

import (
	"math"
	"net"

	"github.com/gokrazy/rsync/rsynccmd"
)

// pinSeed makes every server session in this process use the given checksum
// seed (through the guarded hook in /repo, build tag verif).
func pinSeed(seed int32) { rsynccmd.VerifSetSeed(func(int32) int32 { return seed }) }

// setReadWindow shrinks the sender's read window to max(3*blockLength, n);
// n <= 0 restores the shipped value.
func setReadWindow(n int) {
	if n <= 0 {
		rsynccmd.VerifSetReadWindow(nil)
		return
	}
	rsynccmd.VerifSetReadWindow(func(bl, v int32) int32 { return max(3*bl, int32(n)) })
}

// setMinBlock lowers the minimum delta block length to n; n <= 0 restores the
// shipped value.
func setMinBlock(n int) {
	if n <= 0 {
		rsynccmd.VerifSetBlockLength(nil)
		return
	}
	rsynccmd.VerifSetBlockLength(func(fileLen int64, v int32) int32 {
		return max(int32(math.Sqrt(float64(fileLen))), int32(n))
	})
}

func setListeners(f func([]net.Listener) []net.Listener) { rsynccmd.VerifSetListeners(f) }

func relaxLandlock() { rsynccmd.VerifRelaxLandlock() }

const hooksEnabled = true
