package props

import (
	"fmt"
	"path"
	"unicode/utf8"

	"golang.org/x/sys/unix"
	"sort"
	"strings"

	"verif/sim/fstree"
	"verif/sim/kernel"
)

// Gen draws workloads from one PRNG stream.
type Gen struct {
	R        *kernel.SplitMix64
	Thorough bool
	n        int
	// NoOddDirNames keeps directory names plain (non-UTF-8 directory names
	// are a recorded finding; generate them rarely).
	NoOddDirNames bool
	forDir        bool
}

func NewGen(seed uint64, thorough bool) *Gen {
	return &Gen{R: kernel.NewRNG(seed), Thorough: thorough}
}

var boundarySizes = []int64{
	0, 1, 2, 699, 700, 701, 1399, 1400, 1401, 2100, 4095, 4096, 4097,
	700*700 - 1, 700 * 700, 700*700 + 1, 701 * 701, 701*701 + 1,
	256*1024 - 1, 256 * 1024, 256*1024 + 1,
	2*256*1024 - 1, 2 * 256 * 1024, 2*256*1024 + 1,
	768*1024 + 333, 1024*1024 - 1, 1024 * 1024, 1024*1024 + 1,
}

// Size draws a file size. budget caps it.
func (g *Gen) Size(budget int64) int64 {
	var s int64
	switch g.R.Intn(10) {
	case 0, 1, 2:
		s = boundarySizes[g.R.Intn(len(boundarySizes))]
	case 3, 4, 5:
		s = g.R.Int63n(3000)
	case 6, 7:
		s = g.R.Int63n(70000)
	case 8:
		s = g.R.Int63n(900000)
	default:
		max := int64(3 << 20)
		if g.Thorough {
			max = 12 << 20
		}
		s = g.R.Int63n(max)
	}
	if s > budget {
		s = budget
	}
	return s
}

var classes = []string{"random", "random", "random", "zeros", "byte", "periodic", "high", "text"}
var periods = []int{1, 2, 64, 700, 1024, 3, 701}

func (g *Gen) Content(size int64) *fstree.Content {
	c := &fstree.Content{Class: classes[g.R.Intn(len(classes))], Seed: g.R.Uint64() >> 1, Size: size}
	if c.Class == "periodic" {
		c.Period = periods[g.R.Intn(len(periods))]
	}
	return c
}

const nameAlpha = "abcdefghijklmnopqrstuvwxyzABCDEFGHIJ0123456789_+=,@"

// NameComponent draws one path component (no '/', no NUL, not "." or "..").
func (g *Gen) NameComponent(plain bool) string {
	g.n++
	if g.R.Intn(25) == 0 {
		// names that contain the names the harness gives to modules and roots
		return []string{"mod", "old-mod", "mod.bak", "xmodx", "src", "dst", "rw", "ro"}[g.R.Intn(8)]
	}
	if plain || g.R.Intn(4) != 0 || (g.NoOddDirNames && g.forDir) {
		n := 1 + g.R.Intn(8)
		b := make([]byte, n)
		for i := range b {
			b[i] = nameAlpha[g.R.Intn(len(nameAlpha))]
		}
		return string(b)
	}
	switch g.R.Intn(10) {
	case 8:
		return fmt.Sprintf("trail%d ", g.n) // ends in whitespace
	case 9:
		return fmt.Sprintf("%c%d", "#$!+,"[g.R.Intn(5)], g.n) // sorts before '.'
	case 0:
		return fmt.Sprintf("sp ace %d", g.n)
	case 1:
		return fmt.Sprintf("-dash%d", g.n)
	case 2:
		return fmt.Sprintf(".hidden%d", g.n)
	case 3:
		return fmt.Sprintf("hi\xff\x80\xfe%d", g.n)
	case 4:
		return fmt.Sprintf("new\nline%d", g.n)
	case 5:
		if g.R.Intn(10) == 0 {
			return strings.Repeat("L", 230+g.R.Intn(20)) + fmt.Sprint(g.n)
		}
		return strings.Repeat("L", 100+g.R.Intn(100)) + fmt.Sprint(g.n)
	case 6:
		return fmt.Sprintf("\xc3\xa9t\xc3\xa9 %d*?[x]", g.n)
	default:
		return fmt.Sprintf("..dots..%d", g.n)
	}
}

// TreeOpts steer tree generation.
type TreeOpts struct {
	MaxEntries int
	ByteBudget int64
	PlainNames bool
	Symlinks   bool
	Specials   bool // fifos, sockets
	Devices    bool
	MaxDepth   int
	FixedPerms bool // everything 0644/0755
	FixedMtime bool
}

// Tree draws a source tree.
func (g *Gen) Tree(o TreeOpts) fstree.Tree {
	if o.MaxDepth == 0 {
		o.MaxDepth = 3
	}
	var t fstree.Tree
	dirs := []string{""}
	depth := map[string]int{"": 0}
	n := 0
	if o.MaxEntries > 0 {
		n = g.R.Intn(o.MaxEntries + 1)
	}
	budget := o.ByteBudget
	used := map[string]bool{}
	// sibling names that share prefixes / sort adjacent
	for i := 0; i < n; i++ {
		parent := dirs[g.R.Intn(len(dirs))]
		name := g.NameComponent(o.PlainNames)
		if g.R.Intn(5) == 0 && len(t.Entries) > 0 {
			// derive a name sharing a prefix with an existing sibling
			prev := string(t.Entries[g.R.Intn(len(t.Entries))].Path)
			if idx := strings.LastIndexByte(prev, '/'); idx >= 0 {
				prev = prev[idx+1:]
			}
			if len(prev) < 200 {
				name = prev + string(nameAlpha[g.R.Intn(len(nameAlpha))])
			}
		}
		p := name
		if parent != "" {
			p = parent + "/" + name
		}
		if used[p] {
			continue
		}
		used[p] = true
		e := fstree.Entry{Path: fstree.Name(p)}
		e.Mtime = g.Mtime(o.FixedMtime)
		e.MtimeNs = 0
		if !o.FixedMtime && g.R.Intn(3) == 0 {
			e.MtimeNs = g.R.Int63n(1_000_000_000)
		}
		kind := g.R.Intn(20)
		switch {
		case kind < 5 && depth[parent] < o.MaxDepth:
			if !utf8.ValidString(name) && g.R.Intn(15) != 0 {
				// keep as a regular file instead (see NoOddDirNames)
				e.Type = "f"
				e.Perm = g.Perm(false, o.FixedPerms)
				sz := g.Size(budget)
				budget -= sz
				e.Content = g.Content(sz)
				break
			}
			e.Type = "d"
			e.Perm = g.Perm(true, o.FixedPerms)
			dirs = append(dirs, p)
			depth[p] = depth[parent] + 1
		case kind == 5 && o.Symlinks:
			e.Type = "l"
			e.Perm = 0o777
			e.Target = fstree.Name(g.LinkTarget())
		case kind == 6 && o.Specials:
			e.Type = "fifo"
			e.Perm = g.Perm(false, o.FixedPerms)
		case kind == 7 && o.Specials:
			e.Type = "sock"
			e.Perm = g.Perm(false, o.FixedPerms)
		case kind == 8 && o.Devices:
			e.Type = "chr"
			e.Perm = g.Perm(false, o.FixedPerms)
			e.Rdev = uint64(1<<8 | 3) // /dev/null's numbers
			if g.R.Bool() {
				// minors above 255 use the upper bits of the Linux dev_t encoding
				minor := []uint32{0, 1, 255, 256, 257, 1000, 65535, 1 << 19}[g.R.Intn(8)]
				e.Rdev = unix.Mkdev(uint32(1+g.R.Intn(250)), minor)
			}
		case kind == 9 && o.Devices:
			e.Type = "blk"
			e.Perm = g.Perm(false, o.FixedPerms)
			e.Rdev = unix.Mkdev(7, []uint32{0, 5, 63, 256, 300, 4095}[g.R.Intn(6)])
		default:
			e.Type = "f"
			e.Perm = g.Perm(false, o.FixedPerms)
			sz := g.Size(budget)
			budget -= sz
			e.Content = g.Content(sz)
		}
		t.Entries = append(t.Entries, e)
	}
	return t
}

func (g *Gen) Perm(dir, fixed bool) uint32 {
	if fixed {
		if dir {
			return 0o755
		}
		return 0o644
	}
	switch g.R.Intn(6) {
	case 0:
		if dir {
			return 0o755
		}
		return 0o644
	case 1:
		if dir {
			return 0o700
		}
		return 0o600
	case 2:
		if dir {
			return 0o555 // no owner write permission
		}
		return 0o444
	case 3:
		if dir {
			return 0o750
		}
		return 0o640
	default:
		p := uint32(g.R.Intn(0o1000))
		if dir {
			p |= 0o500 // keep directories traversable for the walk itself
		}
		return p
	}
}

func (g *Gen) Mtime(fixed bool) int64 {
	if fixed {
		return 1_600_000_000
	}
	switch g.R.Intn(8) {
	case 0:
		return 0
	case 1:
		return -1 - g.R.Int63n(1_000_000_000) // pre-1970
	case 2:
		return 0x7fffffff - g.R.Int63n(1000)
	case 3:
		return 1
	default:
		return 1_000_000_000 + g.R.Int63n(800_000_000)
	}
}

func (g *Gen) LinkTarget() string {
	if g.R.Intn(4) == 0 {
		// non-canonical spellings must be reproduced verbatim
		return []string{"sub/", "./file", "a/../b", "a//b", "./", "..", "/", "x/./y", "../", "a/b/../../c/"}[g.R.Intn(10)]
	}
	switch g.R.Intn(6) {
	case 0:
		return "/nonexistent/absolute/" + g.NameComponent(true)
	case 1:
		return "../" + g.NameComponent(true)
	case 2:
		return "../../../../etc/hostname"
	case 3:
		return "t\xffarget\x80 with bytes"
	case 4:
		return strings.Repeat("x/", 40) + "end"
	default:
		return g.NameComponent(true)
	}
}

// Edited returns a variant of content c.
func (g *Gen) Edited(c *fstree.Content) *fstree.Content {
	if c == nil {
		return nil
	}
	n := &fstree.Content{Class: c.Class, Seed: c.Seed, Size: c.Size, Period: c.Period, Edits: append([]fstree.Edit(nil), c.Edits...)}
	size := int64(len(c.Bytes()))
	k := 1 + g.R.Intn(3)
	for i := 0; i < k; i++ {
		off := int64(0)
		if size > 0 {
			off = g.R.Int63n(size + 1)
		}
		l := int64(1 + g.R.Intn(40))
		if g.R.Intn(3) == 0 {
			l = int64(1 + g.R.Intn(5000))
		}
		switch g.R.Intn(8) {
		case 0:
			n.Edits = append(n.Edits, fstree.Edit{Kind: "ins", Off: off, Len: l, Seed: g.R.Uint64() >> 1})
		case 1:
			n.Edits = append(n.Edits, fstree.Edit{Kind: "del", Off: off, Len: l})
		case 2:
			n.Edits = append(n.Edits, fstree.Edit{Kind: "rep", Off: off, Len: l, Seed: g.R.Uint64() >> 1})
		case 3:
			n.Edits = append(n.Edits, fstree.Edit{Kind: "ins", Off: 0, Len: l, Seed: g.R.Uint64() >> 1}) // prepend
		case 4:
			n.Edits = append(n.Edits, fstree.Edit{Kind: "app", Len: l, Seed: g.R.Uint64() >> 1})
		case 5:
			n.Edits = append(n.Edits, fstree.Edit{Kind: "trunc", Off: off})
		case 6:
			bl := int64(700 + g.R.Intn(800))
			if size >= 2*bl {
				o1 := g.R.Int63n(size - 2*bl + 1)
				o2 := o1 + bl + g.R.Int63n(size-o1-2*bl+1)
				n.Edits = append(n.Edits, fstree.Edit{Kind: "swap", Off: o1, Off2: o2, Len: bl})
			} else {
				n.Edits = append(n.Edits, fstree.Edit{Kind: "rep", Off: off, Len: 1, Seed: g.R.Uint64() >> 1})
			}
		default:
			n.Edits = append(n.Edits, fstree.Edit{Kind: "rep", Off: off, Len: 1, Seed: g.R.Uint64() >> 1})
		}
	}
	return n
}

// PriorDest draws a prior destination state for the given listed source
// entries (name → source entry). Obstacles of another type are generated only
// where making room is a plain unlink/rmdir.
type listedSrc struct {
	Name  string
	Entry fstree.Entry
}

func (g *Gen) PriorDest(listed []listedSrc, allowObstacles bool, extras int) fstree.Tree {
	var t fstree.Tree
	taken := map[string]bool{}
	blocked := map[string]bool{} // names under a non-directory obstacle
	sort.Slice(listed, func(i, j int) bool { return listed[i].Name < listed[j].Name })
	for _, l := range listed {
		if l.Name == "." {
			continue
		}
		skip := false
		for b := range blocked {
			if strings.HasPrefix(l.Name, b+"/") {
				skip = true
			}
		}
		if skip {
			continue
		}
		e := l.Entry
		d := fstree.Entry{Path: fstree.Name(l.Name), Type: e.Type, Perm: e.Perm, Mtime: e.Mtime, MtimeNs: e.MtimeNs,
			Target: e.Target, Rdev: e.Rdev}
		if e.Type != "f" {
			switch g.R.Intn(6) {
			case 0: // same thing already there
				if e.Type == "d" || e.Type == "l" || e.Type == "fifo" {
					t.Entries = append(t.Entries, d)
					taken[l.Name] = true
				}
			case 1:
				if e.Type == "l" { // symlink with another target
					d.Target = fstree.Name(g.LinkTarget())
					t.Entries = append(t.Entries, d)
					taken[l.Name] = true
				} else if e.Type == "d" && allowObstacles {
					// a file in the way of a directory
					d.Type, d.Perm = "f", 0o644
					d.Content = g.Content(g.R.Int63n(2000))
					t.Entries = append(t.Entries, d)
					taken[l.Name] = true
					blocked[l.Name] = true
				}
			case 2:
				if e.Type == "d" && allowObstacles {
					// a symlink to a directory in the way of a directory: whoever
					// looks at it with stat instead of lstat sees a directory
					d.Type, d.Target, d.Perm = "l", ".", 0o777
					t.Entries = append(t.Entries, d)
					taken[l.Name] = true
					blocked[l.Name] = true
				}
			}
			continue
		}
		switch g.R.Intn(16) {
		case 14: // same size, different content, mtime newer or older than the source's
			if e.Content != nil {
				c := *e.Content
				c.Seed ^= 0x3c3c
				if c.Class == "zeros" {
					c.Class = "random"
				}
				d.Content = &c
			}
			d.Mtime = e.Mtime + []int64{1, -1, 3600, -3600, 86400 * 400, -86400 * 400}[g.R.Intn(6)]
		case 15: // identical or not, in the neighbouring second but less than a second away
			d.Content = e.Content
			if g.R.Bool() {
				d.Content = g.Edited(e.Content)
			}
			if g.R.Bool() {
				d.Mtime, d.MtimeNs = e.Mtime-1, e.MtimeNs+1+g.R.Int63n(999_999_998-e.MtimeNs%999_999_998)
				if d.MtimeNs > 999_999_999 {
					d.MtimeNs = 999_999_999
				}
			} else if e.MtimeNs > 1 {
				d.Mtime, d.MtimeNs = e.Mtime+1, g.R.Int63n(e.MtimeNs)
			} else {
				d.Mtime, d.MtimeNs = e.Mtime-1, 999_999_999
			}
		case 0, 1, 2: // absent
			continue
		case 3: // identical, same mtime
			d.Content = e.Content
		case 4: // identical content, other mtime
			d.Content = e.Content
			d.Mtime = e.Mtime + int64(1+g.R.Intn(5000))
		case 5: // same size and mtime, different content
			if e.Content != nil {
				c := *e.Content
				c.Seed ^= 0x5a5a
				if c.Class == "zeros" {
					c.Class = "random"
				}
				d.Content = &c
			}
		case 6, 7, 8, 9: // edited variant as delta basis
			d.Content = g.Edited(e.Content)
			d.Mtime = e.Mtime - int64(1+g.R.Intn(5000))
		case 10: // emptied
			d.Content = &fstree.Content{Class: "zeros", Size: 0}
			d.Mtime = e.Mtime + 7
		case 11: // unrelated content
			d.Content = g.Content(g.Size(200000))
			d.Mtime = e.Mtime + 11
		case 12: // extended
			c := *e.Content
			c.Edits = append(append([]fstree.Edit(nil), c.Edits...), fstree.Edit{Kind: "app", Len: int64(1 + g.R.Intn(3000)), Seed: 77})
			d.Content = &c
			d.Mtime = e.Mtime + 3
		default: // another type in the way
			if !allowObstacles {
				continue
			}
			switch g.R.Intn(5) {
			case 4:
				// a symlink to a twin of the source file (same size, content and
				// mtime): through stat it looks like an up-to-date regular file
				twin := fstree.Entry{Path: fstree.Name(path.Join(path.Dir(l.Name), ".twin-"+path.Base(l.Name))), Type: "f", Perm: e.Perm, Mtime: e.Mtime, MtimeNs: e.MtimeNs, Content: e.Content}
				if len(path.Base(l.Name)) < 200 && !taken[string(twin.Path)] {
					t.Entries = append(t.Entries, twin)
					taken[string(twin.Path)] = true
					d.Type, d.Target, d.Perm = "l", fstree.Name(".twin-"+path.Base(l.Name)), 0o777
				} else {
					d.Type = "fifo"
				}
			case 0:
				d.Type, d.Target, d.Perm = "l", fstree.Name("dangling-"+g.NameComponent(true)), 0o777
			case 1:
				d.Type = "fifo"
			case 2:
				d.Type, d.Perm = "d", 0o755 // empty directory
			default:
				d.Type, d.Target, d.Perm = "l", ".", 0o777 // symlink to a directory
			}
			d.Content = nil
		}
		if g.R.Intn(3) == 0 {
			d.Perm = g.Perm(false, false) | 0o600
		}
		t.Entries = append(t.Entries, d)
		taken[l.Name] = true
	}
	for i := 0; i < extras; i++ {
		name := "extra-" + g.NameComponent(true)
		if taken[name] {
			continue
		}
		taken[name] = true
		t.Entries = append(t.Entries, fstree.Entry{Path: fstree.Name(name), Type: "f", Perm: 0o644, Mtime: 1_500_000_000,
			Content: g.Content(g.R.Int63n(3000))})
	}
	return t
}

var capChoices = []int{0, 1, 7, 12, 64, 4096, 65536, 1 << 20, kernel.Unbounded}

// TransportFor draws a transport personality. minCap is the smallest legal
// capacity (12 for daemon arrangements: both sides write their greeting
// before reading). bytes is the approximate volume, used to keep the step
// count of byte-at-a-time personalities bounded.
func (g *Gen) TransportFor(minCap int, bytes int64) Transport {
	pick := func() int {
		for {
			c := capChoices[g.R.Intn(len(capChoices))]
			if c == kernel.Unbounded || c >= minCap {
				return c
			}
		}
	}
	tr := Transport{CapCS: pick(), CapSC: pick(), SchedSeed: g.R.Uint64() >> 1}
	tr.Chunk = g.R.Intn(4)
	tr.Bias = []int{kernel.BiasUniform, kernel.BiasUniform, kernel.BiasCanonical, kernel.BiasStarve, kernel.BiasBursty, kernel.BiasReverse}[g.R.Intn(6)]
	tr.StarveDir = g.R.Intn(2)
	tr.Delays = g.R.Intn(4) == 0
	if g.R.Intn(6) == 0 {
		// boundary checksum seeds
		v := []int32{0, 1, -1, 0x7fffffff, -0x80000000, 27}[g.R.Intn(6)]
		tr.Seed = &v
	}
	if g.R.Bool() {
		// tuning knob: a small read window makes the sender's window logic
		// (slide, re-align, regrow, clamp at EOF) run on small files
		tr.ReadWindow = []int{1024, 2048, 3000, 4096, 8192, 16384, 65536, 100000}[g.R.Intn(8)]
	}
	if g.R.Intn(3) == 0 {
		// tuning knob: small delta blocks, so that small files have many blocks
		tr.MinBlock = []int{8, 16, 17, 64, 100, 128, 255, 512}[g.R.Intn(8)]
	}
	// bound the number of scheduler steps: about 40k steps per session
	const stepTarget = 40000
	if bytes/stepTarget > 1 {
		tr.MinChunk = int(bytes / stepTarget)
		for _, c := range []*int{&tr.CapCS, &tr.CapSC} {
			if *c > 0 && *c < tr.MinChunk && *c < 4096 {
				// tiny buffers with a large volume: raise capacity so the run stays bounded
				*c = 4096
			}
		}
	}
	return tr
}

func treeBytes(t *fstree.Tree) int64 {
	var n int64
	for _, e := range t.Entries {
		if e.Content != nil {
			n += e.Content.Size
			for _, ed := range e.Content.Edits {
				n += ed.Len
			}
		}
	}
	return n
}

// SanitizeKnown rewrites the entries that would trigger the recorded C01
// findings (names over ~235 bytes; directories - explicit or implied by a
// path - whose name is not valid UTF-8), for checks that are about something
// else and must stay inside the domain where transfers succeed.
func SanitizeKnown(t *fstree.Tree) {
	for i := range t.Entries {
		e := &t.Entries[i]
		p := string(e.Path)
		parts := strings.Split(p, "/")
		changed := false
		for j, c := range parts {
			isDir := j < len(parts)-1 || e.Type == "d"
			if len(c) > 200 || (isDir && !utf8.ValidString(c)) {
				parts[j] = fmt.Sprintf("s%x", kernel.Derive(7, c)&0xffffff)
				changed = true
			}
		}
		if changed {
			e.Path = fstree.Name(strings.Join(parts, "/"))
		}
	}
}
