package props

import (
	"context"
	"fmt"
	"os"
	"path/filepath"
	"sort"
	"strings"
	"testing"
	"time"

	"github.com/gokrazy/rsync/rsyncclient"

	"verif/sim/fstree"
	"verif/sim/kernel"
	"verif/sim/model"
	"verif/sim/refproto"
)

// C12: files are re-sent exactly when the update rule says so; repeat syncs
// are no-ops.

type C12Entry struct {
	Name     string `json:"name"`
	Size     int64  `json:"size"`
	Seed     uint64 `json:"seed"`
	Mtime    int64  `json:"mtime"`
	Dst      string `json:"dst"`       // missing same diffsize diffcontent emptydir symlink
	DeltaSec int64  `json:"delta_sec"` // destination mtime - source mtime, seconds
	DstNs    int64  `json:"dst_ns"`    // destination mtime nanosecond part
}

type C12Scenario struct {
	Mode    string        `json:"mode"`          // table | table-push | repeat
	Arr     string        `json:"arr,omitempty"` // table-push: arrangement (both ends real)
	Opts    []string      `json:"opts"`
	Entries []C12Entry    `json:"entries,omitempty"`
	Sync    *SyncScenario `json:"sync,omitempty"`  // repeat mode
	Touch   string        `json:"touch,omitempty"` // repeat mode: how the source changes before the third run: size mtime content none
	Tr      Transport     `json:"tr"`
}

type c12 struct{}

func init() { Register("C12", c12{}) }

func (c12) NewScenario() any { return &C12Scenario{} }

var c12OptCombos = [][]string{
	{"-r"}, {"-r", "-t"}, {"-r", "-c"}, {"-r", "-t", "-c"}, {"-r", "-I"}, {"-r", "-t", "-I"}, {"-r", "-c", "-I"}, {"-r", "-t", "-c", "-I"},
}

func (c12) Generate(seed uint64, tier string, index int) any {
	g := NewGen(kernel.Derive(seed, "workload"), tier == "thorough")
	if index%5 == 3 {
		// repeat-sync idempotence with real sender and real receiver
		opts := [][]string{{"-rt"}, {"-a"}, {"-rtc"}, {"-rlt"}, {"-rtp"}}[g.R.Intn(5)]
		to := TreeOpts{MaxEntries: 10, ByteBudget: 200 << 10, PlainNames: g.R.Bool(), Symlinks: true}
		sc := genSync(g, "A1", opts, to, false)
		SanitizeKnown(&sc.Src)
		sc.ModuleFS = false
		sc.Sources = []SrcArg{{Path: "", Slash: true}}
		sc.Dst = fstree.Tree{}
		touch := []string{"none", "size", "mtime", "content", "content"}[g.R.Intn(5)]
		if g.R.Intn(4) == 0 {
			// the first sync starts from what a killed earlier sync left; after it
			// the repeat must still be a no-op
			sc.Kill = &KillPoint{PerMille: g.R.Intn(1001)}
		}
		return &C12Scenario{Mode: "repeat", Opts: opts, Sync: &sc, Touch: touch, Tr: sc.Tr, Arr: []string{"A1", "A1", "A2", "A3s", "A3p"}[g.R.Intn(5)]}
	}
	// every fifth run: the same table with two real ends and the real SERVER (or
	// the local copy's server half) as the receiver, judged by content
	sc := &C12Scenario{Mode: "table", Opts: c12OptCombos[(index/5*3+index%5)%len(c12OptCombos)]}
	if index%5 == 4 {
		sc.Mode = "table-push"
		sc.Opts = c12OptCombos[(index/5)%len(c12OptCombos)]
		sc.Arr = []string{"A2", "A3s", "A4", "A1"}[g.R.Intn(4)]
	}
	n := 0
	// the complete decision table for this option combination
	for _, dst := range []string{"missing", "same", "diffsize", "diffcontent"} {
		for _, d := range []struct {
			sec, ns int64
		}{{0, 0}, {1, 0}, {-1, 0}, {0, 1 + g.R.Int63n(999_999_998)}, {86400 * (1 + g.R.Int63n(1000)), 0}, {-86400 * (1 + g.R.Int63n(1000)), 5},
			// another second, but less than one second apart
			{-1, 1 + g.R.Int63n(999_999_998)}, {-1, 999_999_999}, {1, 1 + g.R.Int63n(999_999_998)}} {
			if dst == "missing" && (d.sec != 0 || d.ns != 0) {
				continue
			}
			n++
			m := 1_000_000_000 + g.R.Int63n(500_000_000)
			if g.R.Intn(6) == 0 {
				m = -1 - g.R.Int63n(1_000_000) // pre-1970
			}
			size := 1 + g.R.Int63n(3000)
			if dst != "diffcontent" && g.R.Intn(10) == 0 {
				size = 0 // empty files have a size, an mtime and (under -c) a checksum too
			}
			sc.Entries = append(sc.Entries, C12Entry{Name: fmt.Sprintf("f%02d_%s", n, g.NameComponent(true)), Size: size, Seed: g.R.Uint64() >> 1,
				Mtime: m, Dst: dst, DeltaSec: d.sec, DstNs: d.ns})
		}
	}
	for _, dst := range []string{"emptydir", "symlink"} {
		n++
		sc.Entries = append(sc.Entries, C12Entry{Name: fmt.Sprintf("f%02d_x", n), Size: 10 + g.R.Int63n(100), Seed: g.R.Uint64() >> 1, Mtime: 1_200_000_000, Dst: dst})
	}
	// embed in a random tree position: shuffle wire order
	for i := len(sc.Entries) - 1; i > 0; i-- {
		j := g.R.Intn(i + 1)
		sc.Entries[i], sc.Entries[j] = sc.Entries[j], sc.Entries[i]
	}
	sc.Tr = g.TransportFor(12, 200<<10)
	return sc
}

func c12Data(e *C12Entry, variant uint64, size int64) []byte {
	c := fstree.Content{Class: "random", Seed: e.Seed ^ variant, Size: size}
	return c.Bytes()
}

func (c12) Run(t *testing.T, scenario any, job *Job, res *Result) {
	sc := scenario.(*C12Scenario)
	if sc.Mode == "repeat" {
		c12Repeat(t, sc, job, res)
		return
	}
	if sc.Mode == "table-push" {
		c12TablePush(t, sc, job, res)
		return
	}
	lay := NewLayout(job.Scratch)
	os.MkdirAll(lay.Dst, 0755)
	o := model.ParseOpts(sc.Opts)
	entries := []refproto.Entry{{Name: ".", Mode: refproto.SIFDIR | 0755, Mtime: 1500000000, Size: 4096, Flags: refproto.XTopDir}}
	data := map[string][]byte{}
	expect := map[string]bool{}
	cells := map[string]bool{}
	seen := map[string]bool{}
	for i := range sc.Entries {
		e := &sc.Entries[i]
		if e.Name == "" || seen[e.Name] || filepath.Base(e.Name) != e.Name || e.Size < 0 || e.Size > 1<<20 {
			res.Invalid = "entry"
			return
		}
		seen[e.Name] = true
		src := c12Data(e, 0, e.Size)
		data[e.Name] = src
		ent := refproto.Entry{Name: e.Name, Mode: refproto.SIFREG | 0644, Mtime: int32(e.Mtime), Size: e.Size}
		if o.Checksum {
			ent.Sum = refproto.PlainMD4(src)
		}
		entries = append(entries, ent)
		p := filepath.Join(lay.Dst, e.Name)
		srcNode := fstree.Node{Type: "f", Size: e.Size, Sum: fstree.HashBytes(src), Mtime: e.Mtime}
		var dstNode *fstree.Node
		var dstData []byte
		switch e.Dst {
		case "missing":
		case "same":
			dstData = src
		case "diffsize":
			dstData = c12Data(e, 0, e.Size+1)
		case "diffcontent":
			dstData = c12Data(e, 0x77, e.Size)
		case "emptydir":
			os.Mkdir(p, 0755)
			dstNode = &fstree.Node{Type: "d"}
		case "symlink":
			os.Symlink("nowhere", p)
			dstNode = &fstree.Node{Type: "l"}
		default:
			res.Invalid = "dst kind"
			return
		}
		if dstData != nil {
			os.WriteFile(p, dstData, 0644)
			mt := time.Unix(e.Mtime+e.DeltaSec, e.DstNs)
			os.Chtimes(p, mt, mt)
			n, err := fstree.LstatNode(p, true)
			if err != nil {
				res.Inconclusive = err.Error()
				return
			}
			dstNode = &n
		}
		expect[e.Name] = model.NeedsTransfer(srcNode, dstNode, o)
		cells[fmt.Sprintf("%s/%d/%v", e.Dst, sign(e.DeltaSec)*btoi(e.DeltaSec != 0)+2*btoi(e.DstNs != 0 && e.DeltaSec == 0), len(sc.Opts))] = true
	}
	cerr := &lockedBuf{max: 1 << 18}
	client, err := rsyncclient.New(sc.Opts, rsyncclient.WithStderr(cerr), rsyncclient.DontRestrict())
	if err != nil {
		res.Invalid = err.Error()
		return
	}
	var sr *refproto.SendResult
	out := RunWithRef(t, &RefRun{Tr: sc.Tr, GuardReal: true,
		Real: func(ctx context.Context, end *kernel.End) error {
			_, err := client.RunDaemon(ctx, end, "mod/", []string{lay.Dst})
			return err
		},
		Ref: func(w *refproto.Wire) error {
			var err error
			sr, err = refproto.Send(w, refproto.SendOpts{Server: true, Daemon: true, Seed: 12345, Entries: entries, Data: data, OptsFromArgs: true})
			return err
		}})
	res.AddRef(out)
	fail := func(kind, sig, detail string) {
		res.Violate(kind, sig, fmt.Sprintf("opts=%v: %s\nclient log: %s", sc.Opts, detail, tail(cerr.String(), 800)))
		if len(out.Tape) <= 300000 {
			sc.Tr.Tape = out.Tape
		}
	}
	if out.Panic != "" {
		fail("panic", panicSignature(out.Panic), out.Panic)
		return
	}
	if out.Outcome != kernel.Finished || out.RealErr != nil || out.RefErr != nil {
		st := ""
		if sr != nil {
			st = sr.Stage
		}
		fail("session-error", "session:"+errSignature(firstErr(out.RealErr, out.RefErr, fmt.Errorf("%v", out.Outcome))), fmt.Sprintf("outcome %v, real receiver: %v, reference sender: %v (stage %s) %s", out.Outcome, out.RealErr, out.RefErr, st, out.Pending))
		return
	}
	requested := map[string]int{}
	for _, rq := range sr.Requests {
		if int(rq.Idx) >= len(sr.Sorted) {
			fail("bad-index", "bad-index", fmt.Sprintf("request for index %d", rq.Idx))
			return
		}
		requested[sr.Sorted[rq.Idx].Name]++
	}
	var wrong []string
	for name, want := range expect {
		got := requested[name]
		if want && got != 1 || !want && got != 0 {
			var e *C12Entry
			for i := range sc.Entries {
				if sc.Entries[i].Name == name {
					e = &sc.Entries[i]
				}
			}
			wrong = append(wrong, fmt.Sprintf("%s: dest=%s mtime delta=%ds dest ns=%d: requested %d times, rule says transfer=%v", name, e.Dst, e.DeltaSec, e.DstNs, got, want))
		}
	}
	sort.Strings(wrong)
	if len(wrong) > 0 {
		e0 := wrong[0]
		sig := "decision"
		if requested[e0[:0]] == 0 {
		}
		nreq, nskip := 0, 0
		for name, want := range expect {
			if want && requested[name] == 0 {
				nskip++
			}
			if !want && requested[name] > 0 {
				nreq++
			}
		}
		if nskip > 0 {
			sig += ":not-requested"
		}
		if nreq > 0 {
			sig += ":needlessly-requested"
		}
		fail("wrong-update-decision", sig, fmt.Sprintf("%d wrong decisions: %v", len(wrong), wrong))
		return
	}
	// transferred files now hold the source content
	for name, want := range expect {
		if !want {
			continue
		}
		b, err := os.ReadFile(filepath.Join(lay.Dst, name))
		if err != nil || string(b) != string(data[name]) {
			fail("wrong-content", "content-after-request", fmt.Sprintf("%q requested and served but destination differs (%v)", name, err))
			return
		}
	}
	res.Probe("decision_cells", len(cells))
	res.Probe("entries_decided", len(expect))
	res.Probe("requests", len(sr.Requests))
	res.NonTrivial = len(expect) >= 10
	res.Sample = map[string]any{"mode": "table", "opts": sc.Opts, "entries": len(expect), "requested": len(sr.Requests)}
}

// c12TablePush runs the decision table between two real ends in a given
// arrangement and judges it by content: a file the rule says must be
// transferred holds the source bytes afterwards, any other keeps its own.
func c12TablePush(t *testing.T, sc *C12Scenario, job *Job, res *Result) {
	lay := NewLayout(job.Scratch)
	o := model.ParseOpts(sc.Opts)
	ss := SyncScenario{Arr: sc.Arr, Opts: sc.Opts, Sources: []SrcArg{{Path: "", Slash: true}}, Tr: sc.Tr}
	switch sc.Arr {
	case "A1", "A2", "A3p", "A3s", "A4":
	default:
		res.Invalid = "arrangement"
		return
	}
	seen := map[string]bool{}
	for i := range sc.Entries {
		e := &sc.Entries[i]
		if e.Name == "" || seen[e.Name] || filepath.Base(e.Name) != e.Name || e.Size < 0 || e.Size > 1<<20 {
			res.Invalid = "entry"
			return
		}
		seen[e.Name] = true
		ss.Src.Entries = append(ss.Src.Entries, fstree.Entry{Path: fstree.Name(e.Name), Type: "f", Perm: 0o644, Mtime: e.Mtime, Content: &fstree.Content{Class: "random", Seed: e.Seed, Size: e.Size}})
		d := fstree.Entry{Path: fstree.Name(e.Name), Type: "f", Perm: 0o644, Mtime: e.Mtime + e.DeltaSec, MtimeNs: e.DstNs}
		switch e.Dst {
		case "missing":
			continue
		case "same":
			d.Content = &fstree.Content{Class: "random", Seed: e.Seed, Size: e.Size}
		case "diffsize":
			d.Content = &fstree.Content{Class: "random", Seed: e.Seed, Size: e.Size + 1}
		case "diffcontent":
			d.Content = &fstree.Content{Class: "random", Seed: e.Seed ^ 0x77, Size: e.Size}
		case "emptydir":
			d = fstree.Entry{Path: fstree.Name(e.Name), Type: "d", Perm: 0o755, Mtime: 1_300_000_000}
		case "symlink":
			d = fstree.Entry{Path: fstree.Name(e.Name), Type: "l", Perm: 0o777, Mtime: 1_300_000_000, Target: "nowhere"}
		default:
			res.Invalid = "dst kind"
			return
		}
		ss.Dst.Entries = append(ss.Dst.Entries, d)
	}
	out, err := semRun(t, &ss, lay, SessionHooks{})
	if err != nil {
		res.Invalid = err.Error()
		return
	}
	res.AddSession(out.S)
	if !sessionSucceeded(res, out.S, "[table-push "+sc.Arr+"] opts="+strings.Join(sc.Opts, " ")+": ") {
		if res.Violation != nil {
			res.Violation.Signature = "push:" + res.Violation.Signature
			setTape(&sc.Tr, out.S)
		}
		return
	}
	var wrong []string
	nskip, nneedless := 0, 0
	for i := range sc.Entries {
		e := &sc.Entries[i]
		s, ok := out.Src[e.Name]
		if !ok {
			res.Inconclusive = "source entry missing from snapshot"
			return
		}
		var bp *fstree.Node
		if b, ok := out.Before[e.Name]; ok {
			bp = &b
		}
		want := model.NeedsTransfer(s, bp, o)
		a := out.After[e.Name]
		switch {
		case want && (a.Type != "f" || a.Sum != s.Sum):
			nskip++
			wrong = append(wrong, fmt.Sprintf("%s: dest=%s mtime delta=%ds dest ns=%d: rule says transfer, destination still differs from the source afterwards (%s)", e.Name, e.Dst, e.DeltaSec, e.DstNs, describe(a, true)))
		case !want && bp != nil && (a.Type != bp.Type || a.Sum != bp.Sum):
			nneedless++
			wrong = append(wrong, fmt.Sprintf("%s: dest=%s mtime delta=%ds dest ns=%d: rule says up to date, but the destination content changed", e.Name, e.Dst, e.DeltaSec, e.DstNs))
		}
	}
	sort.Strings(wrong)
	if len(wrong) > 0 {
		sig := "push-decision"
		if nskip > 0 {
			sig += ":not-transferred"
		}
		if nneedless > 0 {
			sig += ":needlessly-replaced"
		}
		res.Violate("wrong-update-decision", sig+":"+receiverSide(sc.Arr), fmt.Sprintf("arr=%s opts=%v: %d wrong outcomes: %v", sc.Arr, sc.Opts, len(wrong), wrong))
		setTape(&sc.Tr, out.S)
		return
	}
	res.Probe("push_table_entries", len(sc.Entries))
	res.Probe("push_table_"+sc.Arr, 1)
	res.NonTrivial = len(sc.Entries) >= 10
	res.Sample = map[string]any{"mode": "table-push", "arr": sc.Arr, "opts": sc.Opts, "entries": len(sc.Entries)}
}

func sign(v int64) int {
	if v < 0 {
		return -1
	}
	return 1
}
func btoi(b bool) int {
	if b {
		return 1
	}
	return 0
}

func c12Repeat(t *testing.T, sc *C12Scenario, job *Job, res *Result) {
	if sc.Sync == nil {
		res.Invalid = "no sync"
		return
	}
	lay := NewLayout(job.Scratch)
	run := *sc.Sync
	run.Arr, run.Opts = "A1", sc.Opts
	switch sc.Arr {
	case "A2", "A3p", "A3s":
		run.Arr = sc.Arr // both ends real in every arrangement; the wire tap tells what was sent
		if strings.HasPrefix(run.Arr, "A3") {
			run.ViaServe = false // (drawn for the daemon arrangement)
		}
	}
	o := model.ParseOpts(run.Opts)
	if !o.Times {
		res.Invalid = "repeat mode needs -t"
		return
	}
	if err := prepare(&run, lay); err != nil {
		res.Invalid = err.Error()
		return
	}
	if run.Kill != nil {
		run.Opts = sc.Opts
		if !killedState(t, &run, lay, res) {
			return
		}
		run.Kill = nil
	}
	lo := listOptsFor(o)
	doRun := func(label string) (*refproto.ParsedReceiver, *refproto.ParsedSender, bool) {
		s := RunSyncSession(t, &run, lay, SessionHooks{TapWire: true, MaxWire: 32 << 20})
		res.AddSession(s)
		if !sessionSucceeded(res, s, "["+label+"] ") {
			if res.Violation == nil {
				return nil, nil, false // inconclusive (harness trouble)
			}
			setTape(&sc.Tr, s)
			return nil, nil, false
		}
		if run.Arr != "A1" {
			// the sender's stream tells which files were (requested and) sent
			ps, err := parseSenderSide(&run, s)
			if err != nil {
				res.Violate("unparsable-stream", "sender-stream:"+run.Arr, fmt.Sprintf("[%s] %v (stage %s)", label, err, ps.Stage))
				return nil, nil, false
			}
			pr := &refproto.ParsedReceiver{}
			for _, rp := range ps.Replies {
				pr.Requests = append(pr.Requests, &refproto.Request{Idx: rp.Idx})
			}
			return pr, ps, true
		}
		pr, err := refproto.ParseClientReceiverStream(s.WireCS, true, false, false)
		if err != nil {
			res.Violate("unparsable-stream", "receiver-stream", fmt.Sprintf("[%s] %v (stage %s)", label, err, pr.Stage))
			return nil, nil, false
		}
		ps, err := refproto.ParseSenderStream(s.WireSC, refproto.SenderStreamOpts{ServerLines: true, Seed: true, Mux: true, Stats: true}, lo)
		if err != nil {
			res.Violate("unparsable-stream", "sender-stream", fmt.Sprintf("[%s] %v (stage %s)", label, err, ps.Stage))
			return nil, nil, false
		}
		return pr, ps, true
	}
	pr1, _, ok := doRun("first")
	if !ok {
		return
	}
	pr2, ps2, ok := doRun("second")
	if !ok {
		return
	}
	if len(pr2.Requests) != 0 {
		var names []string
		for _, rq := range pr2.Requests {
			if int(rq.Idx) < len(ps2.Sorted) {
				names = append(names, ps2.Sorted[rq.Idx].Name)
			}
		}
		res.Violate("repeat-not-noop", "repeat-requests", fmt.Sprintf("opts=%v: an immediately repeated sync requested %d files again: %q", sc.Opts, len(pr2.Requests), names))
		return
	}
	var lit int64
	for _, rp := range ps2.Replies {
		lit += rp.Literal
	}
	if lit != 0 || len(ps2.Replies) != 0 {
		res.Violate("repeat-not-noop", "repeat-data", fmt.Sprintf("repeated sync moved %d literal bytes in %d replies", lit, len(ps2.Replies)))
		return
	}
	res.Probe("first_run_requests", len(pr1.Requests))
	res.Probe("repeat_runs_noop", 1)
	// change one source file and sync again: exactly that file is requested
	var target *fstree.Entry
	for i := range sc.Sync.Src.Entries {
		e := &sc.Sync.Src.Entries[i]
		if e.Type == "f" && e.Content != nil {
			target = e
			break
		}
	}
	if target != nil && sc.Touch != "none" && sc.Touch != "" {
		p := filepath.Join(lay.Src, string(target.Path))
		fi, err := os.Lstat(p)
		if err != nil {
			res.Inconclusive = err.Error()
			return
		}
		b, _ := os.ReadFile(p)
		mt := fi.ModTime()
		expectReq := true
		switch sc.Touch {
		case "size":
			b = append(b, 'x')
			os.WriteFile(p, b, 0644)
			os.Chtimes(p, mt, mt)
		case "mtime":
			mt = mt.Add(time.Second)
			os.Chtimes(p, mt, mt)
			expectReq = !o.Checksum // under -c only size and content count
		case "content":
			if len(b) == 0 {
				expectReq = false
				break
			}
			b[len(b)/2] ^= 0x55
			os.Chmod(p, 0644)
			os.WriteFile(p, b, 0644)
			os.Chtimes(p, mt, mt) // same size, same mtime: only -c sees it
			expectReq = o.Checksum
		}
		os.Chmod(p, fi.Mode().Perm())
		pr3, ps3, ok := doRun("third")
		if !ok {
			return
		}
		var names []string
		for _, rq := range pr3.Requests {
			if int(rq.Idx) < len(ps3.Sorted) {
				names = append(names, ps3.Sorted[rq.Idx].Name)
			}
		}
		want := []string{}
		if expectReq {
			want = append(want, string(target.Path))
		}
		if fmt.Sprint(names) != fmt.Sprint(want) {
			sig := "change-not-picked-up"
			if len(names) > len(want) {
				sig = "needless-request-after-change"
			}
			res.Violate("wrong-update-decision", sig+":"+sc.Touch, fmt.Sprintf("opts=%v: after changing the %s of %q the receiver requested %q, the rule says %q", sc.Opts, sc.Touch, target.Path, names, want))
			return
		}
		res.Probe("touch_"+sc.Touch, 1)
		// and the sync after that is a no-op again
		pr4, ps4, ok := doRun("fourth")
		if !ok {
			return
		}
		if len(pr4.Requests) != 0 || len(ps4.Replies) != 0 {
			var n4 []string
			for _, rq := range pr4.Requests {
				if int(rq.Idx) < len(ps4.Sorted) {
					n4 = append(n4, ps4.Sorted[rq.Idx].Name)
				}
			}
			res.Violate("repeat-not-noop", "repeat-requests-after-update:"+sc.Touch, fmt.Sprintf("opts=%v: after the changed file %q had been transferred, the next sync requested %q again", sc.Opts, target.Path, n4))
			return
		}
		res.Probe("repeat_after_update_noop", 1)
	}
	res.NonTrivial = len(pr1.Requests) > 0
	res.Sample = map[string]any{"mode": "repeat", "opts": sc.Opts, "first_run_requests": len(pr1.Requests), "touch": sc.Touch}
}
