package props

import (
	"fmt"
	"os"
	"path/filepath"
	"regexp"
	"strings"
	"testing"
	"unicode/utf8"

	"verif/sim/fstree"
	"verif/sim/kernel"
	"verif/sim/model"
)

// C01: a successful sync leaves destination files byte-identical to the source.

type C01Scenario struct {
	Sync SyncScenario `json:"sync"`
	Alt  *Transport   `json:"alt,omitempty"` // second schedule for the same scenario
}

// temporary names of renameio pending files and of the symlink replacement
var reTempName = regexp.MustCompile(`^\.[^/]*[0-9]{6,}$`)

type KillPoint struct {
	PerMille int `json:"per_mille"`
}

// killedState replaces the destination by the state a kill at the drawn
// step of an earlier identical sync leaves. It reports false (with res
// filled in) when the scenario cannot be set up.
func killedState(t *testing.T, judged *SyncScenario, lay Layout, res *Result) bool {
	pre := *judged
	pre.Kill = nil
	pre.Opts = nil
	for _, o := range judged.Opts {
		if o != "-n" && o != "--dry-run" {
			pre.Opts = append(pre.Opts, o) // a dry run would leave nothing behind
		}
	}
	sc := &struct{ Sync SyncScenario }{pre}
	droot := destRootFor(&sc.Sync, lay)
	// 1. measure: how many scheduler steps does the sync take?
	if judged.Arr == "A4" || judged.Kill.PerMille < 0 || judged.Kill.PerMille > 1000 {
		res.Invalid = "kill mode needs a scheduled arrangement"
		return false
	}
	m := RunSyncSession(t, &sc.Sync, lay, SessionHooks{})
	res.AddSession(m)
	if m.Harness != "" || m.Outcome != kernel.Finished || m.ClientErr != nil || m.ServerErr != nil || m.Panic != "" {
		// the plain run of this scenario is judged by the ordinary mode
		res.Invalid = "kill mode: the preliminary sync did not succeed"
		return false
	}
	if err := prepare(&sc.Sync, lay); err != nil {
		res.Invalid = err.Error()
		return false
	}
	at := 1 + m.Stats.Steps*judged.Kill.PerMille/1000
	copyDir := lay.Dst + ".killed"
	fstree.RemoveAll(copyDir)
	var copyErr error
	copied := false
	k := RunSyncSession(t, &sc.Sync, lay, SessionHooks{OnStep: func(step int) error {
		if step < at {
			return nil
		}
		// every goroutine of both ends is parked: this is the instant of the kill
		if _, err := os.Lstat(droot); err != nil {
			copyErr = os.MkdirAll(copyDir, 0o755) // destination not created yet
		} else {
			copyErr = fstree.CopyTree(droot, copyDir)
		}
		copied = true
		return fmt.Errorf("killed at step %d", step)
	}})
	res.AddSession(k)
	if k.Harness != "" {
		res.Inconclusive = k.Harness
		return false
	}
	if !copied || copyErr != nil {
		res.Invalid = fmt.Sprintf("kill mode: no state captured (%v)", copyErr)
		return false
	}
	fstree.RemoveAll(droot)
	if err := os.MkdirAll(filepath.Dir(droot), 0o755); err != nil {
		res.Invalid = err.Error()
		return false
	}
	if err := os.Rename(copyDir, droot); err != nil {
		res.Invalid = err.Error()
		return false
	}
	res.Probe("kill_states", 1)
	if snap, err := fstree.Snapshot(droot); err == nil {
		tmp := 0
		for n := range snap {
			if reTempName.MatchString(filepath.Base(n)) {
				tmp++
			}
		}
		if tmp > 0 {
			res.Probe("kill_states_with_temporary_files", 1)
		}
		if len(snap) > 0 {
			res.Probe("kill_states_mid_transfer", 1)
		}
	}
	return true
}

type c01 struct{}

func init() { Register("C01", c01{}) }

func (c01) NewScenario() any { return &C01Scenario{} }

var c01OptLetters = []string{"-r", "-l", "-p", "-t", "-g", "-o", "-D", "-c", "-I"}

func genOptSubset(g *Gen, forceR bool) []string {
	if g.R.Intn(5) == 0 {
		opts := []string{"-a"}
		if g.R.Intn(3) == 0 {
			opts = append(opts, "-c")
		}
		if g.R.Intn(4) == 0 {
			opts = append(opts, "-I")
		}
		return opts
	}
	var opts []string
	for _, o := range c01OptLetters {
		p := 2
		if o == "-r" {
			p = 7
			if forceR {
				p = 8
			}
		}
		if o == "-t" {
			p = 5
		}
		if g.R.Intn(8) < p {
			opts = append(opts, o)
		}
	}
	// sometimes bundle the letters into one argument
	if len(opts) > 1 && g.R.Bool() {
		b := "-"
		for _, o := range opts {
			b += o[1:]
		}
		opts = []string{b}
	}
	return opts
}

// genSources draws source arguments for a tree.
func genSources(g *Gen, t *fstree.Tree, multi bool) []SrcArg {
	var dirs, files []string
	for _, e := range t.Entries {
		p := string(e.Path)
		if strings.ContainsAny(p, "\n") || len(p) > 200 {
			continue
		}
		if e.Type == "d" {
			dirs = append(dirs, p)
		} else if e.Type == "f" {
			files = append(files, p)
		}
	}
	one := func() SrcArg {
		switch k := g.R.Intn(10); {
		case k < 5:
			return SrcArg{Path: "", Slash: true}
		case k == 5:
			return SrcArg{Path: "", Slash: false}
		case k < 8 && len(dirs) > 0:
			return SrcArg{Path: fstree.Name(dirs[g.R.Intn(len(dirs))]), Slash: g.R.Bool()}
		case len(files) > 0:
			return SrcArg{Path: fstree.Name(files[g.R.Intn(len(files))])}
		}
		return SrcArg{Path: "", Slash: true}
	}
	args := []SrcArg{one()}
	if multi && len(dirs) >= 2 && g.R.Intn(6) == 0 {
		// two directory sources with trailing slashes: their contents merge in
		// the destination root (only when no top-level name occurs in both)
		a, b := dirs[g.R.Intn(len(dirs))], dirs[g.R.Intn(len(dirs))]
		nested := strings.HasPrefix(a+"/", b+"/") || strings.HasPrefix(b+"/", a+"/")
		if a != b && !nested {
			top := func(d string) map[string]bool {
				m := map[string]bool{}
				for _, e := range t.Entries {
					p := string(e.Path)
					if strings.HasPrefix(p, d+"/") {
						rest := p[len(d)+1:]
						if i := strings.IndexByte(rest, '/'); i >= 0 {
							rest = rest[:i]
						}
						m[rest] = true
					}
				}
				return m
			}
			ta, tb := top(a), top(b)
			clash := false
			for k := range ta {
				if tb[k] {
					clash = true
				}
			}
			if !clash {
				return []SrcArg{{Path: fstree.Name(a), Slash: true}, {Path: fstree.Name(b), Slash: true}}
			}
		}
	}
	if multi && g.R.Intn(3) == 0 {
		// additional sources with distinct basenames, none contained in another
		seen := map[string]bool{}
		first := args[0]
		if first.Path == "" {
			return args
		}
		seen[filepath.Base(string(first.Path))] = true
		for i := 0; i < 2; i++ {
			a := one()
			if a.Path == "" || a.Slash || seen[filepath.Base(string(a.Path))] || first.Slash {
				continue
			}
			nested := false
			for _, b := range args {
				if strings.HasPrefix(string(a.Path)+"/", string(b.Path)+"/") || strings.HasPrefix(string(b.Path)+"/", string(a.Path)+"/") {
					nested = true
				}
			}
			if nested {
				continue
			}
			seen[filepath.Base(string(a.Path))] = true
			args = append(args, a)
		}
	}
	return args
}

func modelArgs(srcs []SrcArg) []model.Arg {
	var out []model.Arg
	for _, s := range srcs {
		out = append(out, model.Arg{Path: string(s.Path), Slash: s.Slash})
	}
	return out
}

var arrangements = []string{"A1", "A2", "A3p", "A3s", "A4"}

// genSync draws a complete sync scenario in the "must succeed" domain.
func genSync(g *Gen, arr string, opts []string, to TreeOpts, obstacles bool) SyncScenario {
	sc := SyncScenario{Arr: arr, Opts: opts}
	if arr == "A1" && g.R.Intn(4) == 0 {
		// fs.FS-backed module: io/fs requires valid UTF-8 path names
		sc.ModuleFS = true
		to.PlainNames = true
	}
	sc.Src = g.Tree(to)
	multi := arr != "A1"
	sc.Sources = genSources(g, &sc.Src, multi)
	if arr == "A1" {
		sc.Sources = sc.Sources[:1]
		if a := &sc.Sources[0]; !a.Slash && strings.Contains(string(a.Path), "/") && g.R.Intn(12) != 0 {
			// nested source without slash in a daemon pull is a recorded finding: generate it rarely
			if e := sc.Src.Find(string(a.Path)); e != nil && e.Type == "d" {
				a.Slash = true
			} else {
				*a = SrcArg{Path: "", Slash: true}
			}
		}
	}
	o := model.ParseOpts(opts)
	spec := fstree.SpecSnap(&sc.Src, false)
	listed := model.Select(spec, modelArgs(sc.Sources), "src", arr == "A1", o)
	var ls []listedSrc
	for _, l := range listed {
		if e := sc.Src.Find(l.SrcPath); e != nil {
			ls = append(ls, listedSrc{Name: l.Name, Entry: *e})
		}
	}
	sc.Dst = g.PriorDest(ls, obstacles, g.R.Intn(3))
	if arr == "A2" && g.R.Intn(3) == 0 {
		// upload into a sub-directory of the module (exists or not)
		sc.DestSub = []string{"sub", "sub/", "a/b/", "new dir"}[g.R.Intn(4)]
	}
	if (arr == "A1" || arr == "A2") && g.R.Intn(3) == 0 {
		sc.ViaServe = true // through the daemon's accept loop on the simulated listener
	}
	minCap := 0
	if arr == "A1" || arr == "A2" {
		minCap = 12
	}
	sc.Tr = g.TransportFor(minCap, 2*treeBytes(&sc.Src)+treeBytes(&sc.Dst))
	return sc
}

func (c01) Generate(seed uint64, tier string, index int) any {
	g := NewGen(kernel.Derive(seed, "workload"), tier == "thorough")
	arr := arrangements[g.R.Intn(len(arrangements))]
	opts := genOptSubset(g, true)
	to := TreeOpts{MaxEntries: 12, ByteBudget: 4 << 20, Symlinks: true, Specials: g.R.Intn(3) == 0, Devices: g.R.Intn(4) == 0}
	if tier == "thorough" {
		to.ByteBudget = 24 << 20
		to.MaxEntries = 20
	}
	sc := &C01Scenario{Sync: genSync(g, arr, opts, to, true)}
	if g.R.Intn(3) == 0 && arr != "A4" {
		minCap := 0
		if arr == "A1" || arr == "A2" {
			minCap = 12
		}
		alt := g.TransportFor(minCap, 2*treeBytes(&sc.Sync.Src)+treeBytes(&sc.Sync.Dst))
		sc.Alt = &alt
	}
	if sc.Alt == nil && arr != "A4" && g.R.Intn(5) == 0 {
		sc.Sync.Kill = &KillPoint{PerMille: g.R.Intn(1001)}
	}
	return sc
}

// sessionSucceeded checks the "must succeed" part shared by several oracles.
func sessionSucceeded(res *Result, s *SessionResult, prefix string) bool {
	if s.Harness != "" {
		res.Inconclusive = prefix + s.Harness
		return false
	}
	switch {
	case s.Panic != "":
		res.Violate("panic", panicSignature(s.Panic), prefix+s.Panic)
	case s.Outcome == kernel.Deadlock:
		res.Violate("deadlock", "deadlock", prefix+"no operation enabled and session not finished: "+s.Pending+
			"\nclient stderr: "+tail(s.ClientStderr, 1500)+"\nserver stderr: "+tail(s.ServerStderr, 1500))
	case s.Outcome == kernel.StepBudget:
		res.Violate("livelock", "step-budget", prefix+"step budget exhausted: "+s.Pending)
	case s.Outcome != kernel.Finished:
		res.Violate("outcome", s.Outcome.String(), prefix+s.Pending)
	case s.ClientErr != nil:
		res.Violate("client-error", errSignature(s.ClientErr), prefix+"client returned: "+s.ClientErr.Error()+" (server returned: "+ErrString(s.ServerErr)+")"+
			"\nclient stderr: "+tail(s.ClientStderr, 1500)+"\nserver stderr: "+tail(s.ServerStderr, 1500))
	case s.ServerErr != nil:
		res.Violate("server-error", errSignature(s.ServerErr), prefix+"server returned: "+s.ServerErr.Error()+
			"\nserver stderr: "+tail(s.ServerStderr, 1500))
	default:
		return true
	}
	return false
}

// destRootFor returns the directory that plays the destination root.
func destRootFor(sc *SyncScenario, lay Layout) string {
	if sc.Arr == "A2" && sc.DestSub != "" {
		return filepath.Join(lay.Dst, sc.DestSub)
	}
	return lay.Dst
}

func prepare(sc *SyncScenario, lay Layout) error {
	fstree.RemoveAll(lay.Src)
	fstree.RemoveAll(lay.Dst)
	if err := fstree.Materialise(lay.Src, &sc.Src); err != nil {
		return fmt.Errorf("materialise src: %v", err)
	}
	if err := fstree.Materialise(destRootFor(sc, lay), &sc.Dst); err != nil {
		return fmt.Errorf("materialise dst: %v", err)
	}
	return nil
}

func (c01) Run(t *testing.T, scenario any, job *Job, res *Result) {
	sc := scenario.(*C01Scenario)
	lay := NewLayout(job.Scratch)
	trs := []*Transport{&sc.Sync.Tr}
	if sc.Alt != nil {
		trs = append(trs, sc.Alt)
	}
	for i, tr := range trs {
		if err := prepare(&sc.Sync, lay); err != nil {
			res.Invalid = err.Error()
			return
		}
		if sc.Sync.Kill != nil {
			if !killedState(t, &sc.Sync, lay, res) {
				return
			}
		}
		srcSnap, err := fstree.Snapshot(lay.Src)
		if err != nil {
			res.Inconclusive = err.Error()
			return
		}
		droot := destRootFor(&sc.Sync, lay)
		before, _ := fstree.Snapshot(droot)
		run := sc.Sync
		run.Tr = *tr
		s := RunSyncSession(t, &run, lay, SessionHooks{})
		res.AddSession(s)
		prefix := fmt.Sprintf("[schedule %d] ", i)
		if !sessionSucceeded(res, s, prefix) {
			if res.Violation == nil {
				return // inconclusive (harness trouble)
			}
			if res.Violation.Kind == "client-error" || res.Violation.Kind == "server-error" {
				res.Violation.Signature += inputTags(sc.Sync.Arr, "", sc.Sync.Sources)
			}
			if k := res.Violation.Kind; k == "client-error" || k == "server-error" || k == "deadlock" {
				res.Violation.Signature += longNameTag(&sc.Sync.Src)
			}
			setTape(tr, s)
			return
		}
		after, _ := fstree.Snapshot(droot)
		o := model.ParseOpts(sc.Sync.Opts)
		listed := model.Select(srcSnap, modelArgs(sc.Sync.Sources), filepath.Base(lay.Src), sc.Sync.Arr == "A1", o)
		nfiles, ndelta, nskip := 0, 0, 0
		for _, l := range listed {
			if l.Node.Type != "f" {
				continue
			}
			nfiles++
			var bp *fstree.Node
			if b, ok := before[l.Name]; ok {
				bp = &b
			}
			a, ok := after[l.Name]
			if model.NeedsTransfer(l.Node, bp, o) {
				if !ok || a.Type != "f" {
					res.Violate("missing-file", "missing"+inputTags(sc.Sync.Arr, l.SrcPath, sc.Sync.Sources), fmt.Sprintf("%sselected file %q (source %q) does not exist as a regular file at the destination after a successful sync (got %+v)", prefix, l.Name, l.SrcPath, a))
					setTape(tr, s)
					return
				}
				if a.Sum != l.Node.Sum || a.Size != l.Node.Size {
					res.Violate("wrong-content", "content"+inputTags(sc.Sync.Arr, l.SrcPath, sc.Sync.Sources), fmt.Sprintf("%sselected file %q: destination content %s/%d differs from source %s/%d after a successful sync", prefix, l.Name, a.Sum, a.Size, l.Node.Sum, l.Node.Size))
					setTape(tr, s)
					return
				}
				if bp != nil && bp.Type == "f" && bp.Size > 0 && bp.Sum != l.Node.Sum {
					ndelta++
				}
			} else {
				nskip++
				if !ok || a.Type != "f" || a.Sum != bp.Sum {
					res.Violate("uptodate-file-changed", "uptodate-changed", fmt.Sprintf("%sfile %q was up to date by the update rule but its content changed: before %+v after %+v", prefix, l.Name, *bp, a))
					setTape(tr, s)
					return
				}
			}
		}
		res.Probe("files_checked", nfiles)
		res.Probe("delta_basis_files", ndelta)
		res.Probe("uptodate_files", nskip)
		res.Probe("arr_"+sc.Sync.Arr, 1)
		if ndelta > 0 {
			res.NonTrivial = true
		}
		if i == 0 {
			res.Sample = map[string]any{"arr": sc.Sync.Arr, "opts": sc.Sync.Opts, "sources": sc.Sync.Sources,
				"src_entries": len(sc.Sync.Src.Entries), "dst_entries": len(sc.Sync.Dst.Entries), "files_checked": nfiles,
				"delta_basis_files": ndelta, "cap": []int{tr.CapCS, tr.CapSC}, "chunk": tr.Chunk, "bias": tr.Bias, "steps": s.Stats.Steps}
		}
	}
}

func setTape(tr *Transport, s *SessionResult) {
	if len(s.Tape) > 0 && len(s.Tape) <= 300000 {
		tr.Tape = s.Tape
	}
}

func errSignature(err error) string {
	s := err.Error()
	// strip run-specific paths and numbers
	out := make([]byte, 0, len(s))
	for i := 0; i < len(s); i++ {
		c := s[i]
		if c >= '0' && c <= '9' {
			if len(out) == 0 || out[len(out)-1] != '#' {
				out = append(out, '#')
			}
			continue
		}
		out = append(out, c)
	}
	r := string(out)
	for _, marker := range []string{"file corruption in ", "overflow: "} {
		if idx := strings.Index(r, marker); idx >= 0 {
			r = r[:idx+len(marker)] + "<…>"
		}
	}
	if idx := strings.Index(r, "/dev/shm"); idx >= 0 {
		r = r[:idx] + "<path>"
	}
	if len(r) > 120 {
		r = r[:120]
	}
	return r
}

// panicSignature extracts "message @ top repo frame" from a panic report.
func panicSignature(p string) string {
	lines := strings.Split(p, "\n")
	msg := lines[0]
	frame := ""
	for _, l := range lines {
		l = strings.TrimSpace(l)
		if strings.HasPrefix(l, "/repo/") {
			if idx := strings.Index(l, " "); idx > 0 {
				l = l[:idx]
			}
			frame = strings.TrimPrefix(l, "/repo/")
			// drop line number: stable across unrelated edits
			if idx := strings.LastIndex(frame, ":"); idx > 0 {
				frame = frame[:idx]
			}
			break
		}
	}
	m := errSignature(fmt.Errorf("%s", msg))
	return m + " @ " + frame
}

// nonUTF8Tag marks violations whose failing input lies below a directory or
// source argument whose name is not valid UTF-8 (a known, recorded limitation
// of the sender's walk), so that they form their own violation class.
func nonUTF8Tag(srcPath string, args []SrcArg) string {
	return inputTags("", srcPath, args)
}

// inputTags classifies a violation by recorded input features (known findings
// are matched on these tags, so any other failing input stays a new violation).
// longNameTag: a recorded finding concerns names longer than ~235 bytes (the
// temporary file name exceeds NAME_MAX); whatever follows from that failure
// (error, or a hang on the error path under small buffers) is classified by
// this input feature.
func longNameTag(t *fstree.Tree) string {
	for _, e := range t.Entries {
		if len(filepath.Base(string(e.Path))) > 235 {
			return ":name-over-235-bytes"
		}
	}
	return ""
}

func inputTags(arr, srcPath string, args []SrcArg) string {
	tags := ""
	if arr == "A1" {
		for _, a := range args {
			if !a.Slash && strings.Contains(string(a.Path), "/") {
				tags += ":daemon-nested-source-without-slash"
			}
		}
	}
	return tags + nonUTF8TagOnly(srcPath, args)
}

func nonUTF8TagOnly(srcPath string, args []SrcArg) string {
	dir := filepath.Dir(srcPath)
	if dir != "." && !utf8.ValidString(dir) {
		return ":below-non-utf8-directory"
	}
	for _, a := range args {
		if !utf8.ValidString(string(a.Path)) && (srcPath == "" || string(a.Path) == srcPath || strings.HasPrefix(srcPath, string(a.Path)+"/")) {
			return ":non-utf8-source-argument"
		}
	}
	return ""
}
