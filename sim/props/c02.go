package props

import (
	"bytes"
	"context"
	"fmt"
	"os"
	"path/filepath"
	"testing"

	"github.com/gokrazy/rsync/rsyncclient"
	"github.com/gokrazy/rsync/rsyncd"

	"verif/sim/fstree"
	"verif/sim/kernel"
	"verif/sim/refproto"
	"verif/sim/simfs"
)

// C02: delta encoding and decoding are exact for every basis, target, layout.

type C02File struct {
	Name    string          `json:"name"`
	T       string          `json:"t,omitempty"` // small-alphabet target
	B       string          `json:"b,omitempty"` // small-alphabet basis
	Target  *fstree.Content `json:"target,omitempty"`
	Basis   *fstree.Content `json:"basis,omitempty"`
	NoBasis bool            `json:"no_basis,omitempty"`
	// HugeBasis > 0 (receiver mode): the basis is a sparse file of this many
	// bytes (2 GiB and more) with random data in its last 256 KiB and around
	// the 2 GiB and 4 GiB marks; block references go to offsets no 32-bit
	// product can hold
	HugeBasis int64 `json:"huge_basis,omitempty"`
	BlockLen  int   `json:"block_len"`
	StrongLen int   `json:"strong_len"`
}

func (f *C02File) target() []byte {
	if f.Target != nil {
		return f.Target.Bytes()
	}
	return []byte(f.T)
}
func (f *C02File) basis() []byte {
	if f.Basis != nil {
		return f.Basis.Bytes()
	}
	return []byte(f.B)
}

type C02Scenario struct {
	Mode       string      `json:"mode"` // sender | receiver
	Files      []C02File   `json:"files"`
	FS         *simfs.Plan `json:"fs,omitempty"` // sender mode: fs.FS-backed module with this fault plan
	ScriptSeed uint64      `json:"script_seed,omitempty"`
	Tr         Transport   `json:"tr"`
	Enum       bool        `json:"enum,omitempty"`
}

type c02 struct{}

func init() { Register("C02", c02{}) }

func (c02) NewScenario() any { return &C02Scenario{} }

// enumeration sub-space (thorough): all targets and bases over {a,b} with
// length <= 6, block lengths 1..4, strong length 16.
const c02EnumMaxLen = 6
const c02EnumPerJob = 96

func c02EnumStrings() []string {
	var out []string
	for n := 0; n <= c02EnumMaxLen; n++ {
		for v := 0; v < 1<<n; v++ {
			b := make([]byte, n)
			for i := range b {
				b[i] = 'a' + byte(v>>i&1)
			}
			out = append(out, string(b))
		}
	}
	return out
}

func c02EnumTotal() int {
	n := len(c02EnumStrings())
	return (n - 1) * (n - 1) * 4 // non-empty targets x non-empty bases x 4 block lengths
}

func C02EnumJobs() int { return (c02EnumTotal() + c02EnumPerJob - 1) / c02EnumPerJob }

func (c02) Generate(seed uint64, tier string, index int) any {
	g := NewGen(kernel.Derive(seed, "workload"), tier == "thorough")
	sc := &C02Scenario{}
	if tier == "thorough" && index < C02EnumJobs() {
		// deterministic enumeration chunk
		strs := c02EnumStrings()[1:] // non-empty
		n := len(strs)
		sc.Mode, sc.Enum = "sender", true
		for k := 0; k < c02EnumPerJob; k++ {
			c := index*c02EnumPerJob + k
			if c >= c02EnumTotal() {
				break
			}
			bl := 1 + c%4
			ti := (c / 4) % n
			bi := (c / 4 / n) % n
			sc.Files = append(sc.Files, C02File{Name: fmt.Sprintf("e%05d", k), T: strs[ti], B: strs[bi], BlockLen: bl, StrongLen: 16})
		}
		sc.Tr = Transport{CapCS: kernel.Unbounded, CapSC: kernel.Unbounded, Chunk: kernel.ChunkMax, Bias: kernel.BiasCanonical}
		return sc
	}
	if g.R.Intn(3) == 0 || index%800 == 7 {
		sc.Mode = "receiver"
		sc.ScriptSeed = g.R.Uint64() >> 1
		n := 1 + g.R.Intn(4)
		for i := 0; i < n; i++ {
			f := C02File{Name: fmt.Sprintf("f%d_%s", i, g.NameComponent(true))}
			sz := g.Size(1 << 20)
			if g.R.Intn(3) == 0 {
				sz = 700*int64(1+g.R.Intn(20)) + int64(g.R.Intn(3))*int64(g.R.Intn(700))
			}
			f.Basis = g.Content(sz)
			if g.R.Intn(8) == 0 {
				f.NoBasis = true
			}
			sc.Files = append(sc.Files, f)
		}
		if index%800 == 7 {
			// one sparse basis of 2 GiB or more (the real generator checksums all
			// of it: a few seconds of CPU, hence rarely)
			sc.Files = []C02File{{Name: "huge", Basis: g.Content(1), HugeBasis: []int64{1<<31 + 12345, 1<<31 + 1<<30, 1<<32 + 4096, 1<<32 + 1<<29 + 7}[g.R.Intn(4)]}}
		}
		sc.Tr = g.TransportFor(12, 4<<20)
		return sc
	}
	sc.Mode = "sender"
	n := 1 + g.R.Intn(6)
	var vol int64
	for i := 0; i < n; i++ {
		f := C02File{Name: fmt.Sprintf("f%d_%s", i, g.NameComponent(true))}
		if g.R.Intn(2) == 0 {
			// small alphabet, dense sampling
			alpha := "ab"
			if g.R.Intn(4) == 0 {
				alpha = "abc"
			}
			mk := func(max int) string {
				l := g.R.Intn(max + 1)
				b := make([]byte, l)
				for i := range b {
					b[i] = alpha[g.R.Intn(len(alpha))]
				}
				return string(b)
			}
			f.T, f.B = mk(12), mk(12)
			if len(f.T) == 0 && g.R.Intn(3) != 0 {
				f.T = "a"
			}
			f.BlockLen = 1 + g.R.Intn(8)
			f.StrongLen = []int{16, 16, 16, 2, 3, 8}[g.R.Intn(6)]
		} else {
			sz := g.Size(3 << 20)
			if sz == 0 {
				sz = 1 + g.R.Int63n(5000)
			}
			f.Target = g.Content(sz)
			switch g.R.Intn(8) {
			case 0:
				f.Basis = f.Target // identical
			case 1:
				f.Basis = g.Content(g.Size(1 << 20)) // unrelated
			default:
				f.Basis = g.Edited(f.Target)
			}
			bls := []int{700, 701, 704, 1024, 1400, 2048, 4096, 8192, 16384, 32768, 65536, 131072, 1000, 712}
			f.BlockLen = bls[g.R.Intn(len(bls))]
			if g.R.Intn(3) == 0 {
				f.BlockLen = 700 + 8*g.R.Intn(2000)
			}
			if g.R.Intn(12) == 0 && !c02Repetitive(f.Target) && !c02Repetitive(f.Basis) {
				// above the 128 KiB limit of later protocols; protocol 27 allows 2^29
				f.BlockLen = []int{131073, 150000, 262144, 1 << 20, 1<<24 + 8, 1 << 29}[g.R.Intn(6)]
			}
			if g.R.Intn(6) == 0 {
				f.BlockLen = 1 + g.R.Intn(64) // far below what gokrazy itself would choose, legal on the wire
				if sz > 40000 {
					f.BlockLen = 700
				}
			}
			if f.BlockLen >= 32768 && (c02Repetitive(f.Target) || c02Repetitive(f.Basis)) {
				f.BlockLen = 4096 // see c02Repetitive
			}
			f.StrongLen = []int{16, 16, 16, 16, 2, 4, 8, 12, 1, 15}[g.R.Intn(10)]
			bsz := int64(len(f.Basis.Bytes()))
			if f.BlockLen < 700 && bsz > 40000 {
				f.BlockLen = 700 // a tiny block length over a large basis is only a very long checksum list
			}
			bl := int64(f.BlockLen)
			// wire volume: the checksum list travels too
			vol += bsz / bl * int64(4+f.StrongLen)
			if bsz >= 3*bl && f.Basis != f.Target {
				b := *f.Basis
				b.Edits = append([]fstree.Edit(nil), b.Edits...)
				switch g.R.Intn(4) {
				case 0: // a weak-checksum collision: same rolling sum, other bytes
					blk := g.R.Int63n(bsz / bl)
					b.Edits = append(b.Edits, fstree.Edit{Kind: "wcoll", Off: blk*bl + g.R.Int63n(bl-2)})
				case 1: // duplicated block
					b1, b2 := g.R.Int63n(bsz/bl), g.R.Int63n(bsz/bl)
					b.Edits = append(b.Edits, fstree.Edit{Kind: "dup", Off: b1 * bl, Off2: b2 * bl, Len: bl})
				case 2: // remainder block content recurring mid-file
					rem := bsz % bl
					if rem > 0 && bsz/bl >= 2 {
						b.Edits = append(b.Edits, fstree.Edit{Kind: "dup", Off: (g.R.Int63n(bsz/bl - 1)) * bl, Off2: bsz - rem, Len: rem})
					}
				}
				f.Basis = &b
			}
			vol += sz
		}
		sc.Files = append(sc.Files, f)
	}
	if g.R.Intn(3) == 0 {
		sc.FS = &simfs.Plan{Seed: g.R.Uint64() >> 1, ShortReads: true}
		if g.R.Intn(3) == 0 {
			sc.FS.MaxRead = 1 + g.R.Intn(5000)
		}
	}
	sc.Tr = g.TransportFor(12, 3*vol)
	return sc
}

func (c02) Run(t *testing.T, scenario any, job *Job, res *Result) {
	sc := scenario.(*C02Scenario)
	if len(sc.Files) == 0 {
		res.Invalid = "no files"
		return
	}
	seen := map[string]bool{}
	for _, f := range sc.Files {
		if f.Name == "" || seen[f.Name] || filepath.Base(f.Name) != f.Name || f.Name == "." || f.Name == ".." {
			res.Invalid = "bad file name"
			return
		}
		seen[f.Name] = true
	}
	switch sc.Mode {
	case "sender":
		c02Sender(t, sc, job, res)
	case "receiver":
		c02Receiver(t, sc, job, res)
	default:
		res.Invalid = "mode"
	}
}

// c02Repetitive: content in which every window has the same weak checksum
// (zeros, one repeated byte, short periods). With block lengths of hundreds of
// kilobytes the sender computes a strong checksum over a whole block at
// nearly every byte offset - hours of hashing for a few megabytes. That is
// cost, not exactness (the property), so such pairings are not generated.
func c02Repetitive(c *fstree.Content) bool {
	if c == nil {
		return false
	}
	switch c.Class {
	case "zeros", "byte", "periodic":
		return true
	}
	return false
}

func c02Sender(t *testing.T, sc *C02Scenario, job *Job, res *Result) {
	lay := NewLayout(job.Scratch)
	os.MkdirAll(lay.Src, 0755)
	byName := map[string]*C02File{}
	for i := range sc.Files {
		f := &sc.Files[i]
		if f.BlockLen < 1 || f.StrongLen < 0 || f.StrongLen > 16 {
			res.Invalid = "layout"
			return
		}
		if f.BlockLen >= 32768 && (c02Repetitive(f.Target) || c02Repetitive(f.Basis)) {
			res.Invalid = "block length of 32 KiB and more over repetitive content: hours of hashing, not this property"
			return
		}
		byName[f.Name] = f
		if err := os.WriteFile(filepath.Join(lay.Src, f.Name), f.target(), 0644); err != nil {
			res.Invalid = err.Error()
			return
		}
	}
	mod := rsyncd.Module{Name: "mod", Path: lay.Src}
	var sfs *simfs.FS
	if sc.FS != nil {
		sfs = simfs.New(lay.Src, *sc.FS)
		mod = rsyncd.Module{Name: "mod", FS: sfs}
	}
	slog := &lockedBuf{max: 1 << 18}
	srv, err := rsyncd.NewServer([]rsyncd.Module{mod}, rsyncd.WithStderr(slog), rsyncd.DontRestrict())
	if err != nil {
		res.Inconclusive = err.Error()
		return
	}
	var pr *refproto.PullResult
	rr := &RefRun{Tr: sc.Tr, RefIsClient: true,
		Real: func(ctx context.Context, end *kernel.End) error {
			return srv.HandleDaemonConn(ctx, rsyncd.NewConnection(end, end, "192.0.2.9:1234"))
		},
		Ref: func(w *refproto.Wire) error {
			var err error
			pr, err = refproto.Pull(w, refproto.PullOpts{Daemon: true, Module: "mod", Args: []string{"--server", "--sender", "-r", ".", "mod/"},
				ServerIsSender: true, MaxData: 64 << 20,
				Plan: func(idx int, e *refproto.Entry, seed int32) (bool, []byte, int, int) {
					f := byName[e.Name]
					if f == nil {
						return false, nil, 0, 0
					}
					b := f.basis()
					if len(b) == 0 {
						return true, nil, 0, 0
					}
					return true, b, f.BlockLen, f.StrongLen
				}})
			return err
		}}
	out := RunWithRef(t, rr)
	res.AddRef(out)
	if sfs != nil {
		res.Probe("fs_short_reads", sfs.ShortReadCount)
	}
	fail := func(kind, sig, detail string) {
		res.Violate(kind, sig, detail+"\nserver log: "+tail(slog.String(), 1200))
		if len(out.Tape) <= 300000 {
			sc.Tr.Tape = out.Tape
		}
	}
	if out.Outcome == kernel.StepBudget {
		// the harness's own step cap, not the code's behaviour: a minimised
		// candidate or a hand-written replay may ask for millions of one-byte
		// deliveries
		res.Inconclusive = "step budget of the simulator exhausted: " + out.Pending
		return
	}
	if out.Outcome == kernel.Deadlock {
		fail("deadlock", "deadlock:sender", out.Pending+" "+out.Panic)
		return
	}
	if out.RefErr != nil || out.RealErr != nil {
		stage := ""
		if pr != nil {
			stage = pr.Stage
		}
		fail("session-error", "sender-session-error:"+errSignature(firstErr(out.RefErr, out.RealErr)), fmt.Sprintf("reference receiver: %v (stage %s); real sender: %v", out.RefErr, stage, out.RealErr))
		return
	}
	if pr == nil || len(pr.Files) != len(sc.Files) {
		fail("missing-reply", "reply-count", fmt.Sprintf("requested %d files, got %d replies", len(sc.Files), len(pr.Files)))
		return
	}
	nontrivial := false
	for _, fr := range pr.Files {
		f := byName[fr.Entry.Name]
		T := f.target()
		lay := fmt.Sprintf("file %q target=%s basis=%s blocklen=%d stronglen=%d", f.Name, descBytes(T), descBytes(fr.Basis), f.BlockLen, f.StrongLen)
		if want := refproto.FileSum(T, pr.Seed); want != fr.Reply.FileSum {
			fail("wrong-filesum", "filesum", lay+": whole-file checksum in the reply is not MD4(seed||source)")
			return
		}
		if fr.ApplyErr != nil {
			fail("bad-token", "bad-token", lay+": "+fr.ApplyErr.Error())
			return
		}
		if !bytes.Equal(fr.Data, T) {
			// legitimate only if a truncated strong checksum collided
			if f.StrongLen < 16 && c02FalseMatchLegit(fr, T, pr.Seed) {
				res.Probe("legit_truncated_strong_false_match", 1)
				continue
			}
			fail("wrong-reconstruction", "reconstruction", fmt.Sprintf("%s: token stream applied to the basis gives %s, not the source (tokens: %s)", lay, descBytes(fr.Data), descToks(fr.Reply.Toks)))
			return
		}
		if fr.Reply.Head != fr.Req.Head {
			// not part of the property (tokens are interpreted with the head
			// the sender transmits, which Apply does): only counted
			res.Probe("head_not_echoed", 1)
		}
		res.Probe("block_refs", fr.Reply.BlockRef)
		res.Probe("literal_runs", fr.Reply.LitRuns)
		if fr.Reply.BlockRef > 0 && fr.Reply.Literal > 0 {
			nontrivial = true
		}
		if f.Target != nil && int64(len(T)) > 2*(256<<10) {
			res.Probe("files_crossing_window_twice", 1)
		}
	}
	res.Probe("files_checked", len(pr.Files))
	res.NonTrivial = nontrivial
	if sc.Enum {
		res.Exhaustive = true
		res.Probe("enum_cases", len(sc.Files))
		res.NonTrivial = true
	}
	res.Sample = map[string]any{"mode": "sender", "files": len(sc.Files), "first": map[string]any{"target": descBytes(sc.Files[0].target()), "basis": descBytes(sc.Files[0].basis()),
		"block_len": sc.Files[0].BlockLen, "strong_len": sc.Files[0].StrongLen}, "fs_backed": sc.FS != nil, "steps": out.Stats.Steps}
}

func firstErr(errs ...error) error {
	for _, e := range errs {
		if e != nil {
			return e
		}
	}
	return nil
}

// c02FalseMatchLegit: every block reference whose basis bytes differ from the
// target bytes at its output position must have the same weak checksum and the
// same truncated strong checksum as the target window (a genuine collision of
// the shortened checksum, which rsync resolves by the whole-file checksum).
func c02FalseMatchLegit(fr *FileResultAlias, T []byte, seed int32) bool {
	off := int64(0)
	sl := int(fr.Req.Head.StrongLen)
	for _, tk := range fr.Reply.Toks {
		if tk.Lit != nil {
			if off+int64(len(tk.Lit)) > int64(len(T)) || !bytes.Equal(tk.Lit, T[off:off+int64(len(tk.Lit))]) {
				return false
			}
			off += int64(len(tk.Lit))
			continue
		}
		lo, hi := fr.Reply.Head.BlockRange(tk.Block)
		l := hi - lo
		if off+l > int64(len(T)) {
			return false
		}
		win := T[off : off+l]
		blk := fr.Basis[lo:hi]
		if !bytes.Equal(win, blk) {
			if refproto.Weak(win) != refproto.Weak(blk) {
				return false
			}
			a, b := refproto.Strong(win, seed), refproto.Strong(blk, seed)
			if !bytes.Equal(a[:sl], b[:sl]) {
				return false
			}
		}
		off += l
	}
	return off == int64(len(T))
}

type FileResultAlias = refproto.FileResult

func descBytes(b []byte) string {
	if len(b) <= 24 {
		return fmt.Sprintf("%q", b)
	}
	return fmt.Sprintf("%dB[%s]", len(b), fstree.HashBytes(b)[:8])
}

func descToks(toks []refproto.Tok) string {
	s := ""
	for i, t := range toks {
		if i > 12 {
			return s + "…"
		}
		if t.Lit != nil {
			s += fmt.Sprintf("L%d ", len(t.Lit))
		} else {
			s += fmt.Sprintf("B%d ", t.Block)
		}
	}
	return s
}

// writeHugeBasis creates a sparse file of n bytes with random data in its last
// 256 KiB and in 128 KiB around the 2 GiB and 4 GiB marks.
func writeHugeBasis(path string, n int64, seed uint64) error {
	f, err := os.Create(path)
	if err != nil {
		return err
	}
	defer f.Close()
	if err := f.Truncate(n); err != nil {
		return err
	}
	rng := kernel.NewRNG(seed ^ 0x6875676562617369)
	spot := func(off, l int64) error {
		if off < 0 {
			off = 0
		}
		if off+l > n {
			l = n - off
		}
		if l <= 0 {
			return nil
		}
		b := make([]byte, l)
		for i := range b {
			b[i] = byte(rng.Uint64())
		}
		_, err := f.WriteAt(b, off)
		return err
	}
	for _, o := range []int64{n - 256<<10, 1<<31 - 64<<10, 1<<32 - 64<<10} {
		if err := spot(o, 256<<10); err != nil {
			return err
		}
	}
	return nil
}

func c02Receiver(t *testing.T, sc *C02Scenario, job *Job, res *Result) {
	lay := NewLayout(job.Scratch)
	os.MkdirAll(lay.Dst, 0755)
	entries := []refproto.Entry{{Name: ".", Mode: refproto.SIFDIR | 0755, Mtime: 1500000000, Size: 4096, Flags: refproto.XTopDir}}
	byName := map[string]*C02File{}
	for i := range sc.Files {
		f := &sc.Files[i]
		byName[f.Name] = f
		if f.HugeBasis > 0 {
			if f.HugeBasis < 1<<31 || f.HugeBasis > 1<<34 {
				res.Invalid = "huge basis size"
				return
			}
			if err := writeHugeBasis(filepath.Join(lay.Dst, f.Name), f.HugeBasis, sc.ScriptSeed); err != nil {
				res.Inconclusive = "cannot create the sparse basis: " + err.Error()
				return
			}
			entries = append(entries, refproto.Entry{Name: f.Name, Mode: refproto.SIFREG | 0644, Mtime: 1400000000 + int32(i), Size: 12345})
			continue
		}
		b := f.basis()
		if !f.NoBasis {
			if err := os.WriteFile(filepath.Join(lay.Dst, f.Name), b, 0644); err != nil {
				res.Invalid = err.Error()
				return
			}
		}
		// size deliberately differs from the basis so the generator requests it
		entries = append(entries, refproto.Entry{Name: f.Name, Mode: refproto.SIFREG | 0644, Mtime: 1400000000 + int32(i), Size: int64(len(b)) + 1})
	}
	denoted := map[string][]byte{}
	rng := kernel.NewRNG(sc.ScriptSeed)
	cerr := &lockedBuf{max: 1 << 18}
	client, err := rsyncclient.New([]string{"-rt"}, rsyncclient.WithStderr(cerr), rsyncclient.DontRestrict())
	if err != nil {
		res.Inconclusive = err.Error()
		return
	}
	nrefs, nrem, nout, nhuge := 0, 0, 0, 0
	var sr *refproto.SendResult
	rr := &RefRun{Tr: sc.Tr, GuardReal: true,
		Real: func(ctx context.Context, end *kernel.End) error {
			_, err := client.RunDaemon(ctx, end, "mod/", []string{lay.Dst})
			return err
		},
		Ref: func(w *refproto.Wire) error {
			var err error
			sr, err = refproto.Send(w, refproto.SendOpts{Server: true, Daemon: true, Seed: int32(sc.ScriptSeed), Entries: entries, OptsFromArgs: true,
				Answer: func(idx int, e *refproto.Entry, _ []byte, rq *refproto.Request, seed int32) (refproto.SumHead, []refproto.Tok, [16]byte) {
					f := byName[e.Name]
					if f.HugeBasis > 0 {
						// references to the blocks at and beyond the 2 GiB mark, read
						// back from the sparse file itself
						h := rq.Head
						var toks []refproto.Tok
						var D []byte
						bf, err := os.Open(filepath.Join(lay.Dst, f.Name))
						if err == nil && h.Count > 4 && h.BlockLen > 0 {
							defer bf.Close()
							cands := []int32{h.Count - 1, h.Count - 2, h.Count - 3, int32((int64(1)<<31)/int64(h.BlockLen)) + 1, int32((int64(1) << 31) / int64(h.BlockLen)), int32((int64(1)<<32)/int64(h.BlockLen)) + 1}
							for k := 0; k < 6; k++ {
								blk := cands[rng.Intn(len(cands))]
								if blk < 0 || blk >= h.Count {
									continue
								}
								lo, hi := h.BlockRange(blk)
								buf := make([]byte, hi-lo)
								if _, err := bf.ReadAt(buf, lo); err != nil {
									continue
								}
								toks = append(toks, refproto.Tok{Block: blk})
								D = append(D, buf...)
								nrefs++
								if rng.Intn(2) == 0 {
									lit := []byte(fmt.Sprintf("<lit %d>", rng.Intn(1000)))
									toks = append(toks, refproto.Tok{Lit: lit})
									D = append(D, lit...)
								}
							}
						}
						if len(toks) == 0 {
							toks = []refproto.Tok{{Lit: []byte("no block reference possible")}}
							D = []byte("no block reference possible")
						}
						denoted[e.Name] = D
						nout++
						nhuge++
						return h, toks, refproto.FileSum(D, seed)
					}
					basis := f.basis()
					if f.NoBasis {
						basis = nil
					}
					h := rq.Head
					var toks []refproto.Tok
					var D []byte
					n := 1 + rng.Intn(40)
					for k := 0; k < n; k++ {
						if h.Count > 0 && rng.Intn(3) != 0 {
							blk := int32(rng.Intn(int(h.Count)))
							if rng.Intn(5) == 0 {
								blk = h.Count - 1 // remainder block, possibly mid-file
								nrem++
							}
							rep := 1
							if rng.Intn(6) == 0 {
								rep = 2 + rng.Intn(3)
							}
							for r := 0; r < rep; r++ {
								lo, hi := h.BlockRange(blk)
								if hi > int64(len(basis)) {
									continue
								}
								toks = append(toks, refproto.Tok{Block: blk})
								D = append(D, basis[lo:hi]...)
								nrefs++
							}
						} else {
							l := 1 + rng.Intn(64)
							switch rng.Intn(5) {
							case 0:
								l = 1
							case 1:
								l = 1 + rng.Intn(70000)
							case 2:
								l = 262144 + rng.Intn(3) - 1
							}
							lit := make([]byte, l)
							for i := range lit {
								lit[i] = byte(rng.Uint64())
							}
							toks = append(toks, refproto.Tok{Lit: lit})
							D = append(D, lit...)
						}
					}
					denoted[e.Name] = D
					nout++
					return h, toks, refproto.FileSum(D, seed)
				}})
			return err
		}}
	out := RunWithRef(t, rr)
	res.AddRef(out)
	fail := func(kind, sig, detail string) {
		res.Violate(kind, sig, detail+"\nclient log: "+tail(cerr.String(), 1200))
		if len(out.Tape) <= 300000 {
			sc.Tr.Tape = out.Tape
		}
	}
	if out.Panic != "" {
		fail("panic", panicSignature(out.Panic), out.Panic)
		return
	}
	if out.Outcome == kernel.StepBudget {
		res.Inconclusive = "step budget of the simulator exhausted: " + out.Pending
		return
	}
	if out.Outcome == kernel.Deadlock {
		fail("deadlock", "deadlock:receiver", out.Pending)
		return
	}
	if out.RealErr != nil || out.RefErr != nil {
		stage := ""
		if sr != nil {
			stage = sr.Stage
		}
		fail("session-error", "receiver-session-error:"+errSignature(firstErr(out.RealErr, out.RefErr)), fmt.Sprintf("real receiver: %v; reference sender: %v (stage %s)", out.RealErr, out.RefErr, stage))
		return
	}
	for name, D := range denoted {
		got, err := os.ReadFile(filepath.Join(lay.Dst, name))
		if err != nil {
			fail("missing-file", "receiver-missing", fmt.Sprintf("file %q not written: %v", name, err))
			return
		}
		if !bytes.Equal(got, D) {
			fail("wrong-bytes", "receiver-wrong-bytes", fmt.Sprintf("file %q: receiver wrote %s, the token stream denotes %s", name, descBytes(got), descBytes(D)))
			return
		}
	}
	res.Probe("scripted_files", nout)
	res.Probe("scripted_block_refs", nrefs)
	res.Probe("scripted_remainder_refs", nrem)
	res.Probe("huge_sparse_bases", nhuge)
	res.NonTrivial = nrefs > 0 && nout > 0
	res.Sample = map[string]any{"mode": "receiver", "files": len(sc.Files), "scripted_block_refs": nrefs, "remainder_block_refs": nrem, "steps": out.Stats.Steps}
}
