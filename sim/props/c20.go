package props

import (
	"bytes"
	"context"
	"crypto/ecdsa"
	"crypto/ed25519"
	"crypto/elliptic"
	"crypto/rand"
	"crypto/rsa"
	"encoding/binary"
	"fmt"
	"io"
	"net"
	"os"
	"path/filepath"
	"strings"
	"sync"
	"testing"
	"testing/synctest"
	"time"

	"github.com/gokrazy/rsync/rsynccmd"
	"golang.org/x/crypto/ssh"

	"verif/sim/fstree"
	"verif/sim/kernel"
	"verif/sim/refproto"
)

// C20: SSH listeners admit only authorised keys and expose only the rsync daemon.

type C20Key struct {
	Type   string `json:"type"` // ed25519 ecdsa256 ecdsa384 ecdsa521 rsa
	Listed bool   `json:"listed"`
}

type C20Session struct {
	Key  int    `json:"key"`            // index into Keys (client key)
	Op   string `json:"op"`             // exec shell subsystem pty env-exec channel daemon
	Cmd  string `json:"cmd,omitempty"`  // exec command line (%S scratch area, %P module path, %C canary script)
	Chan string `json:"chan,omitempty"` // channel type for op=channel
}

type C20Scenario struct {
	Mode     string       `json:"mode"` // auth | anon
	Keys     []C20Key     `json:"keys"`
	AKStyle  int          `json:"ak_style"` // authorized_keys layout: 0 plain, 1 comments+blank lines, 2 options prefix/comment suffix, 3 empty file
	Sessions []C20Session `json:"sessions"`
	Tr       Transport    `json:"tr"`
}

type c20 struct{}

func init() { Register("C20", c20{}) }

func (c20) NewScenario() any { return &C20Scenario{} }

var c20KeyTypes = []string{"ed25519", "ecdsa256", "ecdsa384", "ecdsa521", "rsa"}

// exec command lines other than the daemon invocation: a grammar over the
// option parser's vocabulary.
var c20Cmds = []string{
	"rsync --server --sender -r . %S/secret_dir/",
	"rsync --server --sender -logDtpr . %S/secret_dir/secret",
	"rsync --server --sender -r . /etc/",
	"rsync --server -r . %S/planted_dir/",
	"rsync --server -logDtpr . %S/planted_dir/",
	"rsync --server --delete -r . %S/secret_dir/",
	"rsync %S/secret_dir/secret %P/copied",
	"rsync -r %S/secret_dir/ %P/copied_dir/",
	"rsync -r %P/ %S/exfil/",
	"rsync -e %C localhost:/x %S/y",
	"rsync --rsh=%C localhost:/x %S/y",
	"rsync -e %C -r %P/ localhost:/tmp/x",
	"rsync -r rsync://127.0.0.1:1/mod/ %S/y",
	"rsync localhost::mod %S/y",
	"rsync --daemon --gokr.listen=127.0.0.1:0 --gokr.modulemap=evil=%S",
	"rsync --daemon",
	"rsync --server",
	"rsync --sender --server . %S/secret_dir/",
	"rsync",
	"rsync --version",
	"rsync --help",
	"rsync -h",
	"%C",
	"sh -c %C",
	"/bin/sh",
	"cat %S/secret_dir/secret",
	"scp -t /tmp",
	"",
	"rsync --server --daemon . ; %C",
	"rsync --server --sender --daemon=no -r . %S/secret_dir/",
	"rsync --server --no-detach --sender -r . %S/secret_dir/",
	"rsync --server --sender -r --gokr.dont_restrict . %S/secret_dir/",
	"'rsync' '--server' '--sender' '-r' '.' '%S/secret_dir/'",
	"rsync --server --sender -r . %S/secret_dir/ --daemon-not",
	// command lines without a program name in front: whoever skips "argv[0]"
	// once too often (or not often enough) sees another command
	"--daemon --server . %S/planted_dir/",
	"--daemon --server -r . %S/planted_dir/",
	"--daemon --server --sender -r . %S/secret_dir/",
	"--server --daemon . %S/planted_dir/",
	"--server --sender -r . %S/secret_dir/",
	"--server -r . %S/planted_dir/",
	"x --server -r . %S/planted_dir/",
	"x --server --sender -r . %S/secret_dir/",
	"--daemon",
}

// spellings of the daemon invocation (what `rsync -e ssh host::module` sends)
var c20DaemonCmds = []string{"rsync --server --daemon .", "rsync --server --daemon", "'rsync' --server --daemon ."}

// command lines that contain --server and --daemon, but not as the plain
// daemon invocation: --daemon after the paths, or as the VALUE of another
// option. Whether they are refused or served as a daemon is the
// implementation's choice; what they must not do is run a plain server on an
// outside path. The check plays the command-mode client behind them.
var c20AmbiguousCmds = []string{
	"rsync --server . %S/planted_dir/ --daemon",
	"rsync --server -r . %S/planted_dir/ --daemon",
	"rsync --server --sender -r . %S/secret_dir/ --daemon",
	"rsync --server --sender -r --exclude --daemon . %S/secret_dir/",
	"rsync --server --sender -r --filter --daemon . %S/secret_dir/",
	"rsync --server --sender -r --include --daemon . %S/secret_dir/",
	"rsync --server --sender -r -e --daemon . %S/secret_dir/",
	"rsync --server -r --exclude --daemon . %S/planted_dir/",
	"rsync --server --sender -r --exclude=--daemon . %S/secret_dir/",
	"rsync --server --sender -r . %S/secret_dir/ -- --daemon",
	"rsync --daemon --server --sender -r . %S/secret_dir/",
}

// daemon invocations that try to bring their own configuration / module map
var c20EvilDaemonCmds = []string{
	"rsync --server --daemon --gokr.config=%S/conf/evil.toml .",
	"rsync --server --daemon --gokr.modulemap=evil=%S/secret_dir .",
	"rsync --gokr.config=%S/conf/evil.toml --server --daemon .",
	"rsync --server --daemon --config=%S/conf/evil.toml .",
}

func (c20) Generate(seed uint64, tier string, index int) any {
	g := NewGen(kernel.Derive(seed, "workload"), tier == "thorough")
	sc := &C20Scenario{Mode: []string{"auth", "anon", "anon"}[g.R.Intn(3)], AKStyle: g.R.Intn(4)}
	if sc.Mode == "auth" {
		if g.R.Intn(4) != 0 && sc.AKStyle == 3 {
			sc.AKStyle = 1
		}
		nk := 2 + g.R.Intn(4)
		for i := 0; i < nk; i++ {
			sc.Keys = append(sc.Keys, C20Key{Type: c20KeyTypes[g.R.Intn(len(c20KeyTypes))], Listed: g.R.Bool()})
		}
		for i := 0; i < nk; i++ {
			if !sc.Keys[i].Listed && g.R.Bool() && sc.AKStyle != 3 {
				sc.Keys = append(sc.Keys, C20Key{Type: sc.Keys[i].Type, Listed: true}) // a listed key of the same type
				break
			}
		}
		for i := range sc.Keys {
			if !sc.Keys[i].Listed && g.R.Intn(2) == 0 && hasListedTwin(sc.Keys, i) {
				// an unlisted key that first shows a LISTED public key (query without
				// signature) and then signs with its own key
				sc.Sessions = append(sc.Sessions, C20Session{Key: i, Op: "trick-auth"})
			}
			if !sc.Keys[i].Listed && g.R.Intn(2) == 0 {
				sc.Sessions = append(sc.Sessions, C20Session{Key: i, Op: []string{"cert-forged", "cert-signed"}[g.R.Intn(2)]})
			}
			sc.Sessions = append(sc.Sessions, C20Session{Key: i, Op: "daemon", Cmd: c20DaemonCmds[0]})
			if g.R.Intn(3) == 0 {
				// degenerate command lines from an (admitted or not) key: the daemon must survive them
				sc.Sessions = append(sc.Sessions, C20Session{Key: i, Op: "exec", Cmd: []string{"", "   ", "''", "rsync --version", "rsync --server --daemon -h"}[g.R.Intn(5)]})
			}
		}
	} else {
		sc.Keys = []C20Key{{Type: c20KeyTypes[g.R.Intn(len(c20KeyTypes))]}}
		n := 5
		if tier == "thorough" {
			n = 12
		}
		for i := 0; i < n; i++ {
			switch g.R.Intn(10) {
			case 0:
				sc.Sessions = append(sc.Sessions, C20Session{Op: "daemon", Cmd: c20DaemonCmds[g.R.Intn(len(c20DaemonCmds))]})
				if g.R.Bool() {
					sc.Sessions = append(sc.Sessions, C20Session{Op: "daemon-evil", Cmd: c20EvilDaemonCmds[g.R.Intn(len(c20EvilDaemonCmds))]})
				}
			case 1:
				sc.Sessions = append(sc.Sessions, C20Session{Op: []string{"shell", "subsystem", "pty"}[g.R.Intn(3)]})
			case 2:
				sc.Sessions = append(sc.Sessions, C20Session{Op: "channel", Chan: []string{"direct-tcpip", "x11", "forwarded-tcpip", "auth-agent@openssh.com", "tun@openssh.com"}[g.R.Intn(5)]})
			case 3:
				sc.Sessions = append(sc.Sessions, C20Session{Op: "env-exec", Cmd: c20Cmds[g.R.Intn(len(c20Cmds))]})
			case 4:
				sc.Sessions = append(sc.Sessions, C20Session{Op: "exec-lenient", Cmd: c20AmbiguousCmds[g.R.Intn(len(c20AmbiguousCmds))]})
			default:
				sc.Sessions = append(sc.Sessions, C20Session{Op: "exec", Cmd: c20Cmds[g.R.Intn(len(c20Cmds))]})
			}
		}
	}
	sc.Tr = Transport{CapCS: kernel.Unbounded, CapSC: kernel.Unbounded, Chunk: g.R.Intn(4), Bias: g.R.Intn(2), SchedSeed: g.R.Uint64() >> 1}
	return sc
}

func hasListedTwin(keys []C20Key, i int) bool {
	for k := range keys {
		if k != i && keys[k].Listed && keys[k].Type == keys[i].Type {
			return true
		}
	}
	return false
}

func genSigner(typ string) (ssh.Signer, error) {
	switch typ {
	case "ed25519":
		_, priv, err := ed25519.GenerateKey(rand.Reader)
		if err != nil {
			return nil, err
		}
		return ssh.NewSignerFromKey(priv)
	case "ecdsa256", "ecdsa384", "ecdsa521":
		curve := map[string]elliptic.Curve{"ecdsa256": elliptic.P256(), "ecdsa384": elliptic.P384(), "ecdsa521": elliptic.P521()}[typ]
		k, err := ecdsa.GenerateKey(curve, rand.Reader)
		if err != nil {
			return nil, err
		}
		return ssh.NewSignerFromKey(k)
	case "rsa":
		k, err := rsa.GenerateKey(rand.Reader, 2048)
		if err != nil {
			return nil, err
		}
		return ssh.NewSignerFromKey(k)
	}
	return nil, fmt.Errorf("key type %q", typ)
}

type c20Result struct {
	handshakeErr error
	execOK       bool
	reqErr       error
	exit         int // -1: no exit-status seen
	stdout       []byte
	chanErr      error
	listing      []string
	status       string
	engaged      []byte // file data obtained by playing the matching client for real
	silent       bool   // a connection that never spoke: nothing to judge
}

func (c20) Run(t *testing.T, scenario any, job *Job, res *Result) {
	sc := scenario.(*C20Scenario)
	if !hooksEnabled {
		res.Inconclusive = "worker built without the verif hooks"
		return
	}
	if len(sc.Keys) == 0 || len(sc.Sessions) == 0 {
		res.Invalid = "keys/sessions"
		return
	}
	area := filepath.Join(job.Scratch, "area")
	pub := filepath.Join(area, "pub")
	secretDir := filepath.Join(area, "secret_dir")
	os.MkdirAll(pub, 0755)
	os.MkdirAll(secretDir, 0755)
	os.MkdirAll(filepath.Join(area, "conf"), 0755)
	secret := canaryContent("ssh_secret")
	os.WriteFile(filepath.Join(secretDir, "secret"), secret, 0644)
	os.WriteFile(filepath.Join(pub, "public.txt"), []byte("public module content\n"), 0644)
	marker := filepath.Join(area, "canary_executed")
	script := filepath.Join(area, "canary.sh")
	os.WriteFile(script, []byte("#!/bin/sh\necho executed > "+marker+"\n"), 0755)
	subst := func(s string) string {
		return strings.NewReplacer("%S", area, "%P", pub, "%C", script).Replace(s)
	}
	// keys and authorized_keys
	signers := make([]ssh.Signer, len(sc.Keys))
	var ak bytes.Buffer
	if sc.AKStyle == 1 || sc.AKStyle == 2 {
		ak.WriteString("# authorized keys for the rsync daemon\n\n   \n")
	}
	nlisted := 0
	for i, k := range sc.Keys {
		s, err := genSigner(k.Type)
		if err != nil {
			res.Invalid = err.Error()
			return
		}
		signers[i] = s
		if k.Listed && sc.AKStyle != 3 {
			line := strings.TrimSpace(string(ssh.MarshalAuthorizedKey(s.PublicKey())))
			switch sc.AKStyle {
			case 1:
				ak.WriteString("# key " + fmt.Sprint(i) + "\n" + line + " user" + fmt.Sprint(i) + "@example\n\n")
			case 2:
				ak.WriteString("no-pty,command=\"x y\" " + line + " comment with spaces\n\t\n# end\n")
			default:
				ak.WriteString(line + "\n")
			}
			nlisted++
		}
	}
	akPath := filepath.Join(area, "conf", "authorized_keys")
	os.WriteFile(akPath, ak.Bytes(), 0600)
	hostKey := filepath.Join(area, "conf", "ssh_host_ed25519_key")
	var cfg string
	if sc.Mode == "auth" {
		cfg = fmt.Sprintf("dont_namespace = true\n[[listener]]\nhost_key_path = %q\n[listener.authorized_ssh]\naddress = \"sim:22\"\nauthorized_keys = %q\n\n[[module]]\nname = \"pub\"\npath = %q\n", hostKey, akPath, pub)
	} else {
		cfg = fmt.Sprintf("[[listener]]\nhost_key_path = %q\nanon_ssh = \"sim:22\"\n\n[[module]]\nname = \"pub\"\npath = %q\nwritable = true\n", hostKey, pub)
	}
	os.WriteFile(filepath.Join(area, "conf", "evil.toml"), []byte(fmt.Sprintf("[[listener]]\nanon_ssh = \"sim:23\"\n[[module]]\nname = \"evil\"\npath = %q\nwritable = true\n", secretDir)), 0644)
	cfgPath := filepath.Join(area, "conf", "gokr-rsyncd.toml")
	os.WriteFile(cfgPath, []byte(cfg), 0600)
	ringBefore, _ := fstree.Snapshot(area)

	results := make([]*c20Result, len(sc.Sessions))
	var mainErr error
	mainReturned := false
	var daemonLog lockedBuf
	daemonLog.max = 1 << 18
	var harnessErr string
	func() {
		defer func() {
			if r := recover(); r != nil {
				harnessErr = fmt.Sprintf("bubble panic: %v", r)
			}
		}()
		synctest.Test(t, func(t *testing.T) {
			sim := sc.Tr.NewSim()
			ctx, cancel := context.WithCancel(context.Background())
			defer cancel()
			ln := sim.Listen("sim:22")
			setListeners(func([]net.Listener) []net.Listener { return []net.Listener{ln} })
			relaxLandlock()
			go func() {
				cmd := rsynccmd.Command("rsync", "--daemon", "--gokr.config="+cfgPath)
				cmd.Stdout, cmd.Stderr = &daemonLog, &daemonLog
				_, mainErr = cmd.Run(ctx)
				mainReturned = true
			}()
			synctest.Wait()
			if mainReturned {
				return
			}
			for i := range sc.Sessions {
				s := sc.Sessions[i]
				r := &c20Result{exit: -1}
				results[i] = r
				if s.Key < 0 || s.Key >= len(signers) {
					continue
				}
				end := ln.Dial(fmt.Sprintf("198.51.100.%d:50000", 1+i), kernel.Unbounded, kernel.Unbounded)
				end.WPipe().NonParking = true
				end.RPipe().NonParking = true
				if s.Op == "silent" {
					// a peer that connects and never says a word (not even its SSH
					// version string); the connection stays open to the end of the run
					r.silent = true
					sim.Run()
					continue
				}
				sg := signers[s.Key]
				if s.Op == "trick-auth" {
					var decoy ssh.PublicKey
					for k := range sc.Keys {
						// the decoy must be of the same key type (the algorithm name is part of the query)
						if sc.Keys[k].Listed && signers[k].PublicKey().Type() == signers[s.Key].PublicKey().Type() {
							decoy = signers[k].PublicKey()
						}
					}
					sg = &trickSigner{real: signers[s.Key], decoy: decoy}
					s.Op, s.Cmd = "daemon", c20DaemonCmds[0]
				}
				if s.Op == "cert-forged" || s.Op == "cert-signed" {
					// an UNLISTED key wrapped in an OpenSSH certificate that names a
					// LISTED key as its issuer: with a forged signature, or really
					// signed by the listed key. authorized_keys lists plain keys, not
					// certificate authorities: neither may be admitted.
					var issuer ssh.Signer
					for k := range sc.Keys {
						if sc.Keys[k].Listed {
							issuer = signers[k]
						}
					}
					if issuer != nil {
						cert := &ssh.Certificate{Key: signers[s.Key].PublicKey(), CertType: ssh.UserCert, KeyId: "verif", ValidPrincipals: []string{"anyone"}, ValidBefore: ssh.CertTimeInfinity}
						if s.Op == "cert-signed" {
							cert.SignCert(rand.Reader, issuer)
						} else {
							cert.SignCert(rand.Reader, signers[s.Key])
							cert.SignatureKey = issuer.PublicKey()
						}
						if cs, err := ssh.NewCertSigner(cert, signers[s.Key]); err == nil {
							sg = cs
						}
					}
					s.Op, s.Cmd = "daemon", c20DaemonCmds[0]
				}
				p := sim.Go("sshclient", func() error {
					c20Client(end, sg, s, subst, r)
					return nil
				}, end)
				out := sim.Run()
				if out == kernel.Deadlock && !p.Done() {
					end.Close()
					sim.Run()
				}
			}
			res.Steps += sim.Stats.Steps
			res.Bytes += sim.Stats.Bytes
			res.Shapes = append(res.Shapes, sim.Shape())
			sim.Shutdown()
			cancel()
			ln.Close()
			synctest.Wait()
		})
	}()
	setListeners(nil)
	if harnessErr != "" {
		res.Inconclusive = harnessErr + " daemon log: " + tail(daemonLog.String(), 500)
		return
	}
	if mainReturned && results[0] == nil {
		res.Inconclusive = fmt.Sprintf("daemon did not start: %v\n%s", mainErr, tail(daemonLog.String(), 800))
		return
	}
	res.Sessions += len(sc.Sessions)
	ringAfter, _ := fstree.Snapshot(area)
	// judge
	for i, s := range sc.Sessions {
		r := results[i]
		if r == nil || r.silent {
			continue
		}
		desc := fmt.Sprintf("mode=%s session %d op=%s cmd=%q chan=%q key=%+v ak_style=%d", sc.Mode, i, s.Op, subst(s.Cmd), s.Chan, sc.Keys[s.Key], sc.AKStyle)
		if sc.Mode == "auth" {
			want := sc.Keys[s.Key].Listed && sc.AKStyle != 3
			got := r.handshakeErr == nil
			if got != want {
				sig := "unlisted-key-admitted"
				if want {
					sig = "listed-key-refused"
				}
				res.Violate("key-admission", sig+":"+sc.Keys[s.Key].Type, fmt.Sprintf("%s: handshake error=%v, key listed=%v\nauthorized_keys:\n%s\ndaemon log: %s", desc, r.handshakeErr, want, ak.String(), tail(daemonLog.String(), 600)))
				return
			}
			if got && s.Op != "daemon" {
				res.Probe("auth_degenerate_execs_survived", 1) // the worker being alive is the oracle
			} else if got {
				res.Probe("keys_admitted", 1)
				if len(r.listing) == 0 || !strings.Contains(strings.Join(r.listing, "\n"), "pub") {
					res.Violate("daemon-over-ssh", "no-module-listing", fmt.Sprintf("%s: admitted, but the daemon invocation did not return the module listing (%q, status %q, stdout %q)", desc, r.listing, r.status, r.stdout))
					return
				}
			} else {
				res.Probe("keys_refused", 1)
			}
			continue
		}
		// anonymous listener
		if r.handshakeErr != nil {
			res.Violate("key-admission", "anon-refused", fmt.Sprintf("%s: anonymous listener refused the connection: %v", desc, r.handshakeErr))
			return
		}
		if bytes.Contains(r.stdout, secret[:40]) || bytes.Contains(r.engaged, secret[:40]) {
			res.Violate("anon-exposure", "secret-on-channel:"+cmdClass(s), fmt.Sprintf("%s: the session returned the content of a file outside every module", desc))
			return
		}
		switch s.Op {
		case "daemon-evil":
			if r.status == "@RSYNCD: OK" || len(r.listing) > 0 {
				res.Violate("anon-exposure", "own-config-honoured", fmt.Sprintf("%s: the session defined its own module: status %q, listed %q", desc, r.status, r.listing))
				return
			}
			res.Probe("own_config_attempts_refused", 1)
		case "daemon":
			if !strings.Contains(strings.Join(r.listing, "\n"), "pub") {
				res.Violate("daemon-over-ssh", "no-module-listing", fmt.Sprintf("%s: daemon invocation did not return the module listing (%q, status %q, stdout %q, exit %d)\ndaemon log: %s", desc, r.listing, r.status, r.stdout, r.exit, tail(daemonLog.String(), 600)))
				return
			}
			res.Probe("daemon_invocations_served", 1)
		case "channel":
			if r.chanErr == nil {
				res.Violate("anon-exposure", "channel-accepted:"+s.Chan, desc+": channel type accepted")
				return
			}
			res.Probe("channels_refused", 1)
		case "shell", "subsystem", "pty":
			if r.execOK {
				res.Violate("anon-exposure", "request-accepted:"+s.Op, desc+": request accepted")
				return
			}
			res.Probe("requests_refused", 1)
		case "exec-lenient":
			// refusal is not demanded (the line may count as a daemon
			// invocation); exposure is judged by the secret scan above and the
			// ring check below
			res.Probe("ambiguous_commands", 1)
		case "exec", "env-exec":
			refused := !r.execOK || r.exit > 0
			if !refused {
				res.Violate("anon-exposure", "command-not-refused:"+cmdClass(s), fmt.Sprintf("%s: exec accepted=%v exit-status=%d (0 or missing = not refused); first output bytes %q\ndaemon log: %s", desc, r.execOK, r.exit, firstBytes(r.stdout, 80), tail(daemonLog.String(), 500)))
				return
			}
			res.Probe("commands_refused", 1)
		}
	}
	// the ring around the module: nothing created, executed or changed outside the module
	if _, err := os.Lstat(marker); err == nil {
		res.Violate("anon-exposure", "canary-script-executed", fmt.Sprintf("mode=%s: a session made the daemon execute %s (sessions %+v)", sc.Mode, script, sc.Sessions))
		return
	}
	for p, n := range ringAfter {
		if p == "pub" || strings.HasPrefix(p, "pub/") || strings.HasPrefix(p, "conf") || p == "." {
			continue
		}
		b, ok := ringBefore[p]
		if !ok {
			res.Violate("anon-exposure", "created-outside-modules", fmt.Sprintf("mode=%s: %q (%s) was created outside every module (sessions %+v)", sc.Mode, p, n.Type, sc.Sessions))
			return
		}
		if b.Sum != n.Sum || b.Type != n.Type {
			res.Violate("anon-exposure", "modified-outside-modules", fmt.Sprintf("mode=%s: %q changed", sc.Mode, p))
			return
		}
	}
	for p := range ringAfter {
		if strings.HasPrefix(p, "pub/") {
			if _, ok := ringBefore[p]; !ok {
				b, _ := os.ReadFile(filepath.Join(area, p))
				if bytes.Contains(b, secret[:40]) {
					res.Violate("anon-exposure", "secret-copied-into-module", fmt.Sprintf("mode=%s: outside content was copied into the module as %q", sc.Mode, p))
					return
				}
			}
		}
	}
	for p := range ringBefore {
		if _, ok := ringAfter[p]; !ok && !strings.HasPrefix(p, "conf") {
			res.Violate("anon-exposure", "deleted-outside-modules", fmt.Sprintf("mode=%s: %q disappeared", sc.Mode, p))
			return
		}
	}
	res.Probe("mode_"+sc.Mode, 1)
	res.NonTrivial = true
	res.Sample = map[string]any{"mode": sc.Mode, "keys": sc.Keys, "ak_style": sc.AKStyle, "sessions": len(sc.Sessions), "first": sc.Sessions[0]}
}

func firstBytes(b []byte, n int) []byte {
	if len(b) > n {
		return b[:n]
	}
	return b
}

func cmdClass(s C20Session) string {
	c := s.Cmd
	switch {
	case strings.Contains(c, "%C"):
		return "remote-shell-or-script"
	case strings.Contains(c, "--server") && strings.Contains(c, "--sender"):
		return "server-sender-on-path"
	case strings.Contains(c, "--server"):
		return "server-receiver-on-path"
	case strings.Contains(c, "--daemon"):
		return "daemon-flags"
	case strings.HasPrefix(c, "rsync"):
		return "client-mode"
	}
	return "other"
}

// c20Client performs one SSH client interaction over the simulated connection.
// trickSigner is a hostile client key: while the client library asks the
// server whether the key would be acceptable (the publickey query, which
// carries no signature: two Marshal calls) it presents the LISTED public key
// "decoy"; in the signed authentication request it presents its own key and
// signs with its own private key.
type trickSigner struct {
	real  ssh.Signer
	decoy ssh.PublicKey
	mu    sync.Mutex
	calls int
}

func (t *trickSigner) PublicKey() ssh.PublicKey { return t }
func (t *trickSigner) Sign(rand io.Reader, data []byte) (*ssh.Signature, error) {
	return t.real.Sign(rand, data)
}
func (t *trickSigner) Type() string { return t.real.PublicKey().Type() }
func (t *trickSigner) Marshal() []byte {
	t.mu.Lock()
	defer t.mu.Unlock()
	t.calls++
	if t.calls <= 2 && t.decoy != nil {
		return t.decoy.Marshal()
	}
	return t.real.PublicKey().Marshal()
}
func (t *trickSigner) Verify(data []byte, sig *ssh.Signature) error {
	return t.real.PublicKey().Verify(data, sig)
}

func c20Client(conn net.Conn, signer ssh.Signer, s C20Session, subst func(string) string, r *c20Result) {
	cfg := &ssh.ClientConfig{User: "anyone", Auth: []ssh.AuthMethod{ssh.PublicKeys(signer)}, HostKeyCallback: ssh.InsecureIgnoreHostKey()}
	c, chans, reqs, err := ssh.NewClientConn(conn, "sim:22", cfg)
	if err != nil {
		r.handshakeErr = err
		return
	}
	defer c.Close()
	go ssh.DiscardRequests(reqs)
	go func() {
		for nc := range chans {
			nc.Reject(ssh.Prohibited, "no")
		}
	}()
	if s.Op == "channel" {
		ch, creqs, err := c.OpenChannel(s.Chan, nil)
		r.chanErr = err
		if err == nil {
			go ssh.DiscardRequests(creqs)
			ch.Close()
		}
		return
	}
	ch, creqs, err := c.OpenChannel("session", nil)
	if err != nil {
		r.chanErr = err
		return
	}
	exitCh := make(chan int, 1)
	go func() {
		code := -1
		for req := range creqs {
			if req.Type == "exit-status" && len(req.Payload) >= 4 {
				code = int(binary.BigEndian.Uint32(req.Payload))
			}
			if req.WantReply {
				req.Reply(false, nil)
			}
		}
		exitCh <- code
	}()
	type execMsg struct{ Command string }
	type envMsg struct{ Name, Value string }
	type subsysMsg struct{ Name string }
	type ptyMsg struct {
		Term                      string
		Cols, Rows, Width, Height uint32
		Modes                     string
	}
	switch s.Op {
	case "shell":
		r.execOK, r.reqErr = ch.SendRequest("shell", true, nil)
	case "subsystem":
		r.execOK, r.reqErr = ch.SendRequest("subsystem", true, ssh.Marshal(&subsysMsg{"sftp"}))
	case "pty":
		r.execOK, r.reqErr = ch.SendRequest("pty-req", true, ssh.Marshal(&ptyMsg{Term: "xterm", Cols: 80, Rows: 24}))
	case "env-exec":
		ch.SendRequest("env", true, ssh.Marshal(&envMsg{"RSYNC_RSH", subst("%C")}))
		r.execOK, r.reqErr = ch.SendRequest("exec", true, ssh.Marshal(&execMsg{subst(s.Cmd)}))
	case "exec", "exec-lenient":
		r.execOK, r.reqErr = ch.SendRequest("exec", true, ssh.Marshal(&execMsg{subst(s.Cmd)}))
	case "daemon":
		r.execOK, r.reqErr = ch.SendRequest("exec", true, ssh.Marshal(&execMsg{subst(s.Cmd)}))
		if r.execOK {
			w := refproto.NewWire(ch, ch)
			st, lines, _ := w.DaemonClientHandshake("", nil)
			r.status, r.listing = st, lines
		}
	case "daemon-evil":
		// a daemon invocation that names its own configuration: whatever it
		// answers, the module "evil" (an outside directory) must not exist
		r.execOK, r.reqErr = ch.SendRequest("exec", true, ssh.Marshal(&execMsg{subst(s.Cmd)}))
		if r.execOK {
			w := refproto.NewWire(ch, ch)
			pr, _ := refproto.Pull(w, refproto.PullOpts{Daemon: true, Module: "evil", Args: []string{"--server", "--sender", "-r", ".", "evil/"}, ServerIsSender: true, MaxData: 1 << 20,
				Plan: func(int, *refproto.Entry, int32) (bool, []byte, int, int) { return true, nil, 0, 0 }})
			if pr != nil {
				r.status = pr.Status
				for _, f := range pr.Files {
					r.stdout = append(r.stdout, f.Data...)
				}
				if pr.List != nil {
					for _, e := range pr.List.Entries {
						r.listing = append(r.listing, e.Name)
					}
				}
			}
		}
	}
	engaged := false
	if (s.Op == "exec" || s.Op == "env-exec" || s.Op == "exec-lenient") && r.execOK && strings.Contains(s.Cmd, "--server") && !strings.Contains(s.Cmd, "%C") {
		// whatever the command line looks like: if a command-mode server was
		// started behind it, play the matching client for real, so that data
		// would actually flow out of (or into) the outside directory
		engaged = true
		w := refproto.NewWire(ch, ch)
		if strings.Contains(s.Cmd, "--sender") {
			pr, _ := refproto.Pull(w, refproto.PullOpts{Negotiate: true, ServerIsSender: true, MaxData: 1 << 20,
				Plan: func(int, *refproto.Entry, int32) (bool, []byte, int, int) { return true, nil, 0, 0 }})
			if pr != nil {
				for _, f := range pr.Files {
					r.engaged = append(r.engaged, f.Data...)
				}
			}
		} else {
			refproto.Send(w, refproto.SendOpts{Negotiate: true,
				Entries: []refproto.Entry{{Name: ".", Mode: refproto.SIFDIR | 0755, Mtime: 1500000000, Size: 4096, Flags: refproto.XTopDir},
					{Name: "planted_by_session", Mode: refproto.SIFREG | 0644, Mtime: 1500000000, Size: 7}},
				Data: map[string][]byte{"planted_by_session": []byte("planted")}})
		}
		w.Flush()
	}
	if s.Op != "daemon" && s.Op != "daemon-evil" && r.execOK && !engaged {
		// a transfer may be waiting for input: send a protocol version so that
		// a command-mode server gets going, then close our side
		ch.Write([]byte{27, 0, 0, 0, 0, 0, 0, 0})
	}
	ch.CloseWrite()
	done := make(chan struct{})
	go func() {
		b, _ := io.ReadAll(io.LimitReader(ch, 1<<20))
		r.stdout = b
		close(done)
	}()
	select {
	case <-done:
	case <-time.After(30 * time.Second): // fake clock: fires only if nothing else can run
	}
	ch.Close()
	select {
	case code := <-exitCh:
		r.exit = code
	case <-time.After(5 * time.Second):
	}
}
