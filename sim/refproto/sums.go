package refproto

import (
	"encoding/binary"

	"golang.org/x/crypto/md4"
)

// Weak is rsync's rolling checksum over a block: bytes are taken as signed
// chars, s1 = sum of bytes, s2 = sum of the running s1 values,
// value = (s1 & 0xffff) | (s2 << 16).
func Weak(b []byte) uint32 {
	var s1, s2 uint32
	for _, c := range b {
		s1 += uint32(int32(int8(c)))
		s2 += s1
	}
	return (s1 & 0xffff) | (s2 << 16)
}

// Strong is MD4(block ‖ seed little-endian). tridge omits the seed when it is
// zero; with seed 0 the four zero bytes ARE appended by protocol 27 senders
// that always append (the two differ), so callers state which form they want.
func Strong(b []byte, seed int32) [16]byte {
	h := md4.New()
	h.Write(b)
	var s [4]byte
	binary.LittleEndian.PutUint32(s[:], uint32(seed))
	h.Write(s[:])
	var out [16]byte
	copy(out[:], h.Sum(nil))
	return out
}

// FileSum is the whole-file checksum: MD4(seed little-endian ‖ data).
func FileSum(data []byte, seed int32) [16]byte {
	h := md4.New()
	var s [4]byte
	binary.LittleEndian.PutUint32(s[:], uint32(seed))
	h.Write(s[:])
	h.Write(data)
	var out [16]byte
	copy(out[:], h.Sum(nil))
	return out
}

// PlainMD4 is the file-list checksum sent under -c at protocol 27 (no seed).
func PlainMD4(data []byte) [16]byte {
	h := md4.New()
	h.Write(data)
	var out [16]byte
	copy(out[:], h.Sum(nil))
	return out
}

// SumHead is the checksum header of a request / reply.
type SumHead struct {
	Count     int32
	BlockLen  int32
	StrongLen int32
	Remainder int32
}

// BlockSum is one block signature.
type BlockSum struct {
	Weak   uint32
	Strong [16]byte
}

// Signature computes the block signatures of basis for a block length.
func Signature(basis []byte, blockLen int, strongLen int, seed int32) (SumHead, []BlockSum) {
	if blockLen <= 0 || len(basis) == 0 {
		return SumHead{BlockLen: int32(blockLen), StrongLen: int32(strongLen)}, nil
	}
	n := (len(basis) + blockLen - 1) / blockLen
	h := SumHead{Count: int32(n), BlockLen: int32(blockLen), StrongLen: int32(strongLen), Remainder: int32(len(basis) % blockLen)}
	sums := make([]BlockSum, n)
	for i := 0; i < n; i++ {
		lo := i * blockLen
		hi := lo + blockLen
		if hi > len(basis) {
			hi = len(basis)
		}
		sums[i] = BlockSum{Weak: Weak(basis[lo:hi]), Strong: Strong(basis[lo:hi], seed)}
	}
	return h, sums
}

// BlockRange returns the byte range of block i of a basis described by h.
func (h SumHead) BlockRange(i int32) (lo, hi int64) {
	lo = int64(i) * int64(h.BlockLen)
	l := int64(h.BlockLen)
	if i == h.Count-1 && h.Remainder != 0 {
		l = int64(h.Remainder)
	}
	return lo, lo + l
}
