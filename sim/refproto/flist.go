package refproto

import (
	"bytes"
	"fmt"
	"sort"
)

const (
	XTopDir   = 1 << 0
	XSameMode = 1 << 1
	XSameRdev = 1 << 2 // protocol < 28
	XSameUID  = 1 << 3
	XSameGID  = 1 << 4
	XSameName = 1 << 5
	XLongName = 1 << 6
	XSameTime = 1 << 7
)

const (
	SIFMT   = 0o170000
	SIFDIR  = 0o040000
	SIFCHR  = 0o020000
	SIFBLK  = 0o060000
	SIFREG  = 0o100000
	SIFIFO  = 0o010000
	SIFLNK  = 0o120000
	SIFSOCK = 0o140000
)

// ListOpts are the options that add optional fields to file-list entries.
type ListOpts struct {
	UID, GID bool
	Devices  bool
	Specials bool
	Links    bool
	Checksum bool
}

// Entry is one file-list entry.
type Entry struct {
	Name  string
	Size  int64
	Mtime int32
	Mode  uint32
	UID   int32
	GID   int32
	Rdev  int32
	Link  string
	Sum   [16]byte
	Flags byte // as seen on the wire (decode) / forced extra flags (encode)
}

func (e *Entry) IsDir() bool  { return e.Mode&SIFMT == SIFDIR }
func (e *Entry) IsReg() bool  { return e.Mode&SIFMT == SIFREG }
func (e *Entry) IsLink() bool { return e.Mode&SIFMT == SIFLNK }
func (e *Entry) IsDev() bool {
	t := e.Mode & SIFMT
	return t == SIFCHR || t == SIFBLK
}
func (e *Entry) IsSpecial() bool {
	t := e.Mode & SIFMT
	return t == SIFIFO || t == SIFSOCK
}

// hasRdev reports whether the entry carries an rdev field at protocol 27.
func hasRdev(e *Entry, o ListOpts) bool {
	return (o.Devices && e.IsDev()) || (o.Specials && e.IsSpecial())
}

// IDList is a uid or gid name list.
type IDList []IDName
type IDName struct {
	ID   int32
	Name string
}

// FileList is a decoded list.
type FileList struct {
	Entries []Entry // in wire order
	Users   IDList
	Groups  IDList
	IOError int32
}

// Sorted returns the entries in protocol order (bytewise by name), which
// defines the file indices.
func (fl *FileList) Sorted() []Entry {
	es := append([]Entry(nil), fl.Entries...)
	sort.SliceStable(es, func(i, j int) bool { return bytes.Compare([]byte(es[i].Name), []byte(es[j].Name)) < 0 })
	return es
}

// ReadFileList decodes a protocol-27 file list strictly.
func (w *Wire) ReadFileList(o ListOpts) (*FileList, error) {
	fl := &FileList{}
	var prev Entry
	for {
		flags, err := w.GetByte()
		if err != nil {
			return nil, fmt.Errorf("flist flags: %w", err)
		}
		if flags == 0 {
			break
		}
		var e Entry
		e.Flags = flags
		l1 := 0
		if flags&XSameName != 0 {
			b, err := w.GetByte()
			if err != nil {
				return nil, err
			}
			l1 = int(b)
		}
		var l2 int
		if flags&XLongName != 0 {
			v, err := w.GetInt32()
			if err != nil {
				return nil, err
			}
			l2 = int(v)
		} else {
			b, err := w.GetByte()
			if err != nil {
				return nil, err
			}
			l2 = int(b)
		}
		if l2 < 0 || l1+l2 >= 4096 {
			return nil, fmt.Errorf("flist: name length overflow l1=%d l2=%d", l1, l2)
		}
		if l1 > len(prev.Name) {
			return nil, fmt.Errorf("flist: inherited length %d exceeds previous name length %d", l1, len(prev.Name))
		}
		suffix, err := w.GetBytes(l2)
		if err != nil {
			return nil, err
		}
		e.Name = prev.Name[:l1] + string(suffix)
		if e.Size, err = w.GetLong(); err != nil {
			return nil, err
		}
		if flags&XSameTime != 0 {
			e.Mtime = prev.Mtime
		} else if e.Mtime, err = w.GetInt32(); err != nil {
			return nil, err
		}
		if flags&XSameMode != 0 {
			e.Mode = prev.Mode
		} else {
			m, err := w.GetInt32()
			if err != nil {
				return nil, err
			}
			e.Mode = uint32(m)
		}
		if o.UID {
			if flags&XSameUID != 0 {
				e.UID = prev.UID
			} else if e.UID, err = w.GetInt32(); err != nil {
				return nil, err
			}
		}
		if o.GID {
			if flags&XSameGID != 0 {
				e.GID = prev.GID
			} else if e.GID, err = w.GetInt32(); err != nil {
				return nil, err
			}
		}
		if hasRdev(&e, o) {
			if flags&XSameRdev != 0 {
				e.Rdev = prev.Rdev
			} else if e.Rdev, err = w.GetInt32(); err != nil {
				return nil, err
			}
		}
		if o.Links && e.IsLink() {
			n, err := w.GetInt32()
			if err != nil {
				return nil, err
			}
			if n < 0 || n > 1<<20 {
				return nil, fmt.Errorf("flist: link length %d", n)
			}
			b, err := w.GetBytes(int(n))
			if err != nil {
				return nil, err
			}
			e.Link = string(b)
		}
		if o.Checksum {
			b, err := w.GetBytes(16)
			if err != nil {
				return nil, err
			}
			copy(e.Sum[:], b)
		}
		fl.Entries = append(fl.Entries, e)
		prev = e
	}
	readIDs := func() (IDList, error) {
		var l IDList
		for {
			id, err := w.GetInt32()
			if err != nil {
				return nil, err
			}
			if id == 0 {
				return l, nil
			}
			n, err := w.GetByte()
			if err != nil {
				return nil, err
			}
			b, err := w.GetBytes(int(n))
			if err != nil {
				return nil, err
			}
			l = append(l, IDName{id, string(b)})
		}
	}
	var err error
	if o.UID {
		if fl.Users, err = readIDs(); err != nil {
			return nil, fmt.Errorf("uid list: %w", err)
		}
	}
	if o.GID {
		if fl.Groups, err = readIDs(); err != nil {
			return nil, fmt.Errorf("gid list: %w", err)
		}
	}
	if fl.IOError, err = w.GetInt32(); err != nil {
		return nil, fmt.Errorf("io error word: %w", err)
	}
	return fl, nil
}

// EncodeStyle selects among the legal encodings of an entry.
type EncodeStyle struct {
	Compress  bool // use SAME_NAME prefix compression and SAME_* flags where possible
	LongNames bool // always use 4-byte name lengths
	Long64    bool // always use the 64-bit length escape
	// Pick, if set, decides per opportunity (called with a label) whether to
	// use an optional compression; overrides Compress.
	Pick func(label string) bool
}

func (s *EncodeStyle) use(label string) bool {
	if s.Pick != nil {
		return s.Pick(label)
	}
	return s.Compress
}

// WriteFileList encodes entries in the given order.
func (w *Wire) WriteFileList(entries []Entry, users, groups IDList, ioErr int32, o ListOpts, st EncodeStyle) {
	var prev Entry
	first := true
	for i := range entries {
		e := &entries[i]
		flags := e.Flags
		l1 := 0
		if !first && st.use("same_name") {
			for l1 < len(prev.Name) && l1 < len(e.Name) && l1 < 255 && prev.Name[l1] == e.Name[l1] {
				l1++
			}
			if l1 > 0 {
				flags |= XSameName
			}
		}
		suffix := e.Name[l1:]
		if len(suffix) > 255 || st.LongNames || st.use("long_name") {
			flags |= XLongName
		}
		if !first && e.Mtime == prev.Mtime && st.use("same_time") {
			flags |= XSameTime
		}
		if !first && e.Mode == prev.Mode && st.use("same_mode") {
			flags |= XSameMode
		}
		if o.UID && !first && e.UID == prev.UID && st.use("same_uid") {
			flags |= XSameUID
		}
		if o.GID && !first && e.GID == prev.GID && st.use("same_gid") {
			flags |= XSameGID
		}
		if hasRdev(e, o) && !first && hasRdev(&prev, o) && e.Rdev == prev.Rdev && st.use("same_rdev") {
			flags |= XSameRdev
		}
		if flags == 0 {
			// a zero flag byte would end the list (protocol < 28 rule)
			if e.IsDir() {
				flags |= XLongName
			} else {
				flags |= XTopDir
			}
		}
		w.PutByte("flist.flags", flags)
		if flags&XSameName != 0 {
			w.PutByte("flist.inherit", byte(l1))
		}
		if flags&XLongName != 0 {
			w.PutInt32("flist.namelen", int32(len(suffix)))
		} else {
			w.PutByte("flist.namelen8", byte(len(suffix)))
		}
		w.PutString("flist.name", suffix)
		if st.Long64 {
			w.PutLong64("flist.size", e.Size)
		} else {
			w.PutLong("flist.size", e.Size)
		}
		if flags&XSameTime == 0 {
			w.PutInt32("flist.mtime", e.Mtime)
		}
		if flags&XSameMode == 0 {
			w.PutInt32("flist.mode", int32(e.Mode))
		}
		if o.UID && flags&XSameUID == 0 {
			w.PutInt32("flist.uid", e.UID)
		}
		if o.GID && flags&XSameGID == 0 {
			w.PutInt32("flist.gid", e.GID)
		}
		if hasRdev(e, o) && flags&XSameRdev == 0 {
			w.PutInt32("flist.rdev", e.Rdev)
		}
		if o.Links && e.IsLink() {
			w.PutInt32("flist.linklen", int32(len(e.Link)))
			w.PutString("flist.link", e.Link)
		}
		if o.Checksum {
			w.PutBytes("flist.sum", e.Sum[:])
		}
		prev = *e
		first = false
	}
	w.PutByte("flist.end", 0)
	putIDs := func(field string, l IDList) {
		for _, id := range l {
			w.PutInt32(field+".id", id.ID)
			w.PutByte(field+".len", byte(len(id.Name)))
			w.PutString(field+".name", id.Name)
		}
		w.PutInt32(field+".end", 0)
	}
	if o.UID {
		putIDs("uidlist", users)
	}
	if o.GID {
		putIDs("gidlist", groups)
	}
	w.PutInt32("flist.ioerr", ioErr)
}
