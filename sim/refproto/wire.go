// Package refproto is an independent implementation of rsync protocol 27,
// written from the protocol as spoken by tridge rsync at --protocol=27 (see
// DESIGN.md Appendix A), not from the repository's encoders. It plays benign
// or hostile sender/receiver/daemon roles against the real code and parses
// recorded wire histories. It must never import the repository.
package refproto

import (
	"bufio"
	"bytes"
	"encoding/binary"
	"errors"
	"fmt"
	"io"
)

const (
	TagData   = 0
	TagError  = 1
	TagInfo   = 2
	MplexBase = 7
)

// Mutation perturbs exactly one named field occurrence of an outgoing stream.
type Mutation struct {
	Field string `json:"field"` // field name as passed to the writer
	Nth   int    `json:"nth"`   // which occurrence (0-based)
	Class string `json:"class"` // neg zero inc dec big max min trunc noise setv
	Value int64  `json:"value,omitempty"`
	seen  int
	Fired bool `json:"-"`
}

var ErrTruncated = errors.New("refproto: stream deliberately truncated by mutation")

// Wire is a buffered protocol connection with named-field writes.
type Wire struct {
	R   *bufio.Reader
	raw io.Reader
	W   io.Writer
	out bytes.Buffer

	// MuxOut: frame outgoing data as multiplexed data frames.
	MuxOut   bool
	MaxFrame int

	Mut       *Mutation
	Muts      []*Mutation // further simultaneous mutations (other fields)
	// ListLen is the number of entries of the session's file list once it is
	// known (mutation class "listlen": the first index past the list)
	ListLen int
	truncated bool

	// FieldCount counts how often each field name was written (for enumeration).
	FieldCount map[string]int

	BytesIn, BytesOut int64
	demux             *Demux
}

func NewWire(r io.Reader, w io.Writer) *Wire {
	return &Wire{R: bufio.NewReaderSize(r, 64<<10), raw: r, W: w, FieldCount: map[string]int{}, MaxFrame: 32 << 10}
}

// Demux decodes the multiplexed stream a server sends.
type Demux struct {
	r      io.Reader
	buf    []byte
	Infos  []string
	ErrMsg string
	Frames int
	BadTag bool
	// OnFrame observes every frame header (tag, length).
	OnFrame func(tag, length int)
}

func (d *Demux) Read(p []byte) (int, error) {
	for len(d.buf) == 0 {
		var hdr [4]byte
		if _, err := io.ReadFull(d.r, hdr[:]); err != nil {
			return 0, err
		}
		h := binary.LittleEndian.Uint32(hdr[:])
		tag := int(h>>24) - MplexBase
		n := int(h & 0xffffff)
		d.Frames++
		if d.OnFrame != nil {
			d.OnFrame(tag, n)
		}
		payload := make([]byte, n)
		if _, err := io.ReadFull(d.r, payload); err != nil {
			return 0, err
		}
		switch tag {
		case TagData:
			d.buf = payload
		case TagInfo:
			d.Infos = append(d.Infos, string(payload))
		case TagError:
			d.ErrMsg += string(payload)
			return 0, fmt.Errorf("remote error: %s", payload)
		default:
			d.BadTag = true
			return 0, fmt.Errorf("refproto: unknown multiplex tag %d", tag)
		}
	}
	n := copy(p, d.buf)
	d.buf = d.buf[n:]
	return n, nil
}

// EnableDemux switches the incoming direction to multiplexed frames. Bytes
// already buffered are preserved.
func (w *Wire) EnableDemux() *Demux {
	d := &Demux{r: w.R}
	w.demux = d
	w.R = bufio.NewReaderSize(d, 64<<10)
	return d
}

func (w *Wire) Demux() *Demux { return w.demux }

// Flush sends buffered output.
func (w *Wire) Flush() error {
	if w.out.Len() == 0 {
		return nil
	}
	b := w.out.Bytes()
	defer w.out.Reset()
	if !w.MuxOut {
		n, err := w.W.Write(b)
		w.BytesOut += int64(n)
		return err
	}
	for len(b) > 0 {
		n := len(b)
		if n > w.MaxFrame {
			n = w.MaxFrame
		}
		if err := w.WriteFrame(TagData, b[:n]); err != nil {
			return err
		}
		b = b[n:]
	}
	return nil
}

// WriteFrame writes one raw multiplex frame immediately.
func (w *Wire) WriteFrame(tag int, payload []byte) error {
	var hdr [4]byte
	h := uint32(MplexBase+tag)<<24 | uint32(len(payload))
	if v, tr := w.mutate("mux.header", int64(int32(h))); true {
		h = uint32(int32(v))
		if tr {
			w.truncated = true
		}
	}
	binary.LittleEndian.PutUint32(hdr[:], h)
	buf := append(hdr[:], payload...)
	n, err := w.W.Write(buf)
	w.BytesOut += int64(n)
	return err
}

func (w *Wire) mutate(field string, v int64) (int64, bool) {
	w.FieldCount[field]++
	trunc := false
	for _, m := range append([]*Mutation{w.Mut}, w.Muts...) {
		var tr bool
		if m != nil && m.Class == "listlen" {
			m.Value = int64(w.ListLen)
		}
		v, tr = m.apply(field, v)
		trunc = trunc || tr
	}
	return v, trunc
}

func (m *Mutation) apply(field string, v int64) (int64, bool) {
	if m == nil || m.Fired || m.Field != field {
		return v, false
	}
	if m.seen != m.Nth {
		m.seen++
		return v, false
	}
	m.seen++
	m.Fired = true
	switch m.Class {
	case "neg":
		if v > 0 {
			return -v, false
		}
		return -1, false
	case "minus1":
		return -1, false
	case "zero":
		return 0, false
	case "inc":
		return v + 1, false
	case "dec":
		return v - 1, false
	case "big":
		return 1<<20 - 1, false
	case "max":
		return 0x7fffffff, false
	case "min":
		return -0x80000000, false
	case "setv", "listlen":
		return m.Value, false
	case "trunc":
		return v, true
	}
	return v, false
}

func (w *Wire) afterField(trunc bool) {
	if trunc {
		w.truncated = true
	}
}

// Truncated reports that a trunc mutation fired: the caller should flush and
// close the connection.
func (w *Wire) Truncated() bool { return w.truncated }

func (w *Wire) PutByte(field string, b byte) {
	v, tr := w.mutate(field, int64(b))
	w.out.WriteByte(byte(v))
	w.afterField(tr)
}

func (w *Wire) PutInt32(field string, v int32) {
	nv, tr := w.mutate(field, int64(v))
	var b [4]byte
	binary.LittleEndian.PutUint32(b[:], uint32(int32(nv)))
	w.out.Write(b[:])
	w.afterField(tr)
}

// PutLong writes rsync's 32/64-bit length encoding.
func (w *Wire) PutLong(field string, v int64) {
	nv, tr := w.mutate(field, v)
	var b [8]byte
	if nv >= 0 && nv <= 0x7fffffff {
		binary.LittleEndian.PutUint32(b[:4], uint32(nv))
		w.out.Write(b[:4])
	} else {
		binary.LittleEndian.PutUint32(b[:4], 0xffffffff)
		w.out.Write(b[:4])
		binary.LittleEndian.PutUint64(b[:], uint64(nv))
		w.out.Write(b[:])
	}
	w.afterField(tr)
}

// PutLong64 always uses the 64-bit escape form (legal for any value).
func (w *Wire) PutLong64(field string, v int64) {
	nv, tr := w.mutate(field, v)
	var b [8]byte
	binary.LittleEndian.PutUint32(b[:4], 0xffffffff)
	w.out.Write(b[:4])
	binary.LittleEndian.PutUint64(b[:], uint64(nv))
	w.out.Write(b[:])
	w.afterField(tr)
}

func (w *Wire) PutBytes(field string, p []byte) {
	_, tr := w.mutate(field, int64(len(p)))
	noise := false
	for _, m := range append([]*Mutation{w.Mut}, w.Muts...) {
		if m != nil && m.Fired && m.Field == field && m.Class == "noise" && m.seen == m.Nth+1 {
			noise = true
		}
	}
	if noise && len(p) > 0 {
		q := append([]byte(nil), p...)
		for i := range q {
			q[i] ^= byte(0x5a + i*7)
		}
		p = q
	}
	w.out.Write(p)
	w.afterField(tr)
}

func (w *Wire) PutString(field, s string) { w.PutBytes(field, []byte(s)) }

// ---- reading -----------------------------------------------------------------

func (w *Wire) GetByte() (byte, error) {
	if err := w.Flush(); err != nil {
		return 0, err
	}
	b, err := w.R.ReadByte()
	if err == nil {
		w.BytesIn++
	}
	return b, err
}

func (w *Wire) GetBytes(n int) ([]byte, error) {
	if err := w.Flush(); err != nil {
		return nil, err
	}
	if n < 0 || n > 1<<30 {
		return nil, fmt.Errorf("refproto: unreasonable length %d", n)
	}
	p := make([]byte, n)
	_, err := io.ReadFull(w.R, p)
	if err == nil {
		w.BytesIn += int64(n)
	}
	return p, err
}

func (w *Wire) GetInt32() (int32, error) {
	p, err := w.GetBytes(4)
	if err != nil {
		return 0, err
	}
	return int32(binary.LittleEndian.Uint32(p)), nil
}

func (w *Wire) GetLong() (int64, error) {
	v, err := w.GetInt32()
	if err != nil {
		return 0, err
	}
	if v != -1 {
		return int64(v), nil
	}
	p, err := w.GetBytes(8)
	if err != nil {
		return 0, err
	}
	return int64(binary.LittleEndian.Uint64(p)), nil
}

func (w *Wire) GetLine() (string, error) {
	if err := w.Flush(); err != nil {
		return "", err
	}
	s, err := w.R.ReadString('\n')
	w.BytesIn += int64(len(s))
	return s, err
}
