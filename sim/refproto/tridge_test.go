package refproto

import (
	"bytes"
	"io"
	"os"
	"os/exec"
	"path/filepath"
	"testing"
)

// Independence check of the reference peer itself: talk to the installed
// tridge rsync at --protocol=27 in both roles. Skipped when rsync is absent.

type procConn struct {
	io.Reader
	io.Writer
}

func startRsync(t *testing.T, args ...string) (*Wire, func()) {
	bin, err := exec.LookPath("rsync")
	if err != nil {
		t.Skip("no rsync binary")
	}
	cmd := exec.Command(bin, args...)
	in, _ := cmd.StdinPipe()
	out, _ := cmd.StdoutPipe()
	var stderr bytes.Buffer
	cmd.Stderr = &stderr
	if err := cmd.Start(); err != nil {
		t.Fatal(err)
	}
	return NewWire(out, in), func() {
		in.Close()
		cmd.Wait()
		if stderr.Len() > 0 {
			t.Logf("rsync stderr: %s", stderr.String())
		}
	}
}

func TestAgainstTridgeSender(t *testing.T) {
	dir := t.TempDir()
	src := filepath.Join(dir, "src")
	os.MkdirAll(filepath.Join(src, "dir1"), 0755)
	big := bytes.Repeat([]byte("0123456789abcdef"), 5000)
	big[40000] ^= 0xff
	os.WriteFile(filepath.Join(src, "dir1", "aaa_file1"), big, 0644)
	os.WriteFile(filepath.Join(src, "dir1", "aaa_file2"), []byte("hello world"), 0600)
	os.WriteFile(filepath.Join(src, "zzz"), nil, 0644)
	os.Symlink("dir1/aaa_file2", filepath.Join(src, "link"))
	w, done := startRsync(t, "--server", "--sender", "-logDtpr", ".", src+"/")
	defer done()
	basis := bytes.Repeat([]byte("0123456789abcdef"), 5000)
	res, err := Pull(w, PullOpts{Negotiate: true, List: ListOpts{UID: true, GID: true, Devices: true, Specials: true, Links: true}, ServerIsSender: true,
		Plan: func(idx int, e *Entry, seed int32) (bool, []byte, int, int) {
			switch e.Name {
			case "dir1/aaa_file1":
				return true, basis, 700, 16
			case "dir1/aaa_file2":
				return true, []byte("hello worms"), 4, 2
			}
			return true, nil, 0, 0
		}})
	if err != nil {
		t.Fatalf("stage %s: %v", res.Stage, err)
	}
	var names []string
	for _, e := range res.Sorted {
		names = append(names, e.Name)
	}
	want := []string{".", "dir1", "dir1/aaa_file1", "dir1/aaa_file2", "link", "zzz"}
	if len(names) != len(want) {
		t.Fatalf("names %q want %q", names, want)
	}
	for i := range want {
		if names[i] != want[i] {
			t.Fatalf("names %q want %q", names, want)
		}
	}
	for _, f := range res.Files {
		if f.ApplyErr != nil || !f.SumOK {
			t.Errorf("%s: apply %v sumok %v", f.Entry.Name, f.ApplyErr, f.SumOK)
		}
		got, _ := os.ReadFile(filepath.Join(src, f.Entry.Name))
		if !bytes.Equal(got, f.Data) {
			t.Errorf("%s: reconstructed data differs", f.Entry.Name)
		}
		if f.Entry.Name == "dir1/aaa_file1" && (f.Reply.BlockRef < 100 || f.Reply.Literal > 1500) {
			t.Errorf("delta not effective: refs=%d literal=%d", f.Reply.BlockRef, f.Reply.Literal)
		}
		if f.Entry.Name == "dir1/aaa_file2" && f.Reply.BlockRef != 2 {
			t.Errorf("small-block delta: refs=%d literal=%d", f.Reply.BlockRef, f.Reply.Literal)
		}
	}
	for _, e := range res.Sorted {
		if e.Name == "link" && e.Link != "dir1/aaa_file2" {
			t.Errorf("link target %q", e.Link)
		}
	}
}

func TestAgainstTridgeReceiver(t *testing.T) {
	for _, compress := range []bool{false, true} {
		dir := t.TempDir()
		dst := filepath.Join(dir, "dst")
		os.MkdirAll(dst, 0755)
		os.WriteFile(filepath.Join(dst, "sub_b"), bytes.Repeat([]byte("x"), 3000), 0644)
		w, done := startRsync(t, "--server", "-logDtpr", ".", dst+"/")
		data := map[string][]byte{
			"sub_a": []byte("content a"),
			"sub_b": append(bytes.Repeat([]byte("x"), 2100), []byte("tail")...),
			"d/in":  bytes.Repeat([]byte("q"), 70000),
		}
		uid, gid := int32(os.Getuid()), int32(os.Getgid())
		entries := []Entry{
			{Name: ".", Mode: SIFDIR | 0755, Mtime: 1500000000, Size: 4096, Flags: XTopDir, UID: uid, GID: gid},
			{Name: "sub_a", Mode: SIFREG | 0644, Mtime: 1500000000, Size: 9, UID: uid, GID: gid},
			{Name: "sub_b", Mode: SIFREG | 0644, Mtime: 1500000001, Size: 2104, UID: uid, GID: gid},
			{Name: "d", Mode: SIFDIR | 0755, Mtime: 1500000001, Size: 4096, UID: uid, GID: gid},
			{Name: "d/in", Mode: SIFREG | 0600, Mtime: 1400000000, Size: 70000, UID: uid, GID: gid},
			{Name: "d/lnk", Mode: SIFLNK | 0777, Mtime: 1400000000, Size: 5, Link: "../sub_a", UID: uid, GID: gid},
		}
		res, err := Send(w, SendOpts{Negotiate: true, List: ListOpts{UID: true, GID: true, Devices: true, Specials: true, Links: true},
			Entries: entries, Data: data, Style: EncodeStyle{Compress: compress},
			Answer: func(idx int, e *Entry, d []byte, rq *Request, seed int32) (SumHead, []Tok, [16]byte) {
				if e.Name == "sub_b" && rq.Head.Count > 0 {
					// reference block 0 thrice, then literal tail (2100 = 3*700)
					return rq.Head, []Tok{{Block: 0}, {Block: 0}, {Block: 0}, {Lit: []byte("tail")}}, FileSum(d, seed)
				}
				return rq.Head, LiteralToks(d, 1000), FileSum(d, seed)
			}})
		done()
		if err != nil {
			t.Fatalf("compress=%v stage %s: %v", compress, res.Stage, err)
		}
		for name, want := range data {
			got, err := os.ReadFile(filepath.Join(dst, name))
			if err != nil || !bytes.Equal(got, want) {
				t.Errorf("compress=%v %s: %v, equal=%v", compress, name, err, bytes.Equal(got, want))
			}
		}
		if l, _ := os.Readlink(filepath.Join(dst, "d/lnk")); l != "../sub_a" {
			t.Errorf("link: %q", l)
		}
		fi, _ := os.Stat(filepath.Join(dst, "d/in"))
		if fi == nil || fi.Mode().Perm() != 0600 || fi.ModTime().Unix() != 1400000000 {
			t.Errorf("metadata of d/in: %v", fi)
		}
	}
}
