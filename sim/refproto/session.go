package refproto

import (
	"bytes"
	"errors"
	"fmt"
	"sort"
)

// ---- reference receiver against a real sender ---------------------------------------

// PlanFunc decides for the file with sorted index idx what the reference
// generator does: skip it, request it whole (basis nil, blockLen 0) or send
// signatures of basis with the given block layout.
type PlanFunc func(idx int, e *Entry, seed int32) (request bool, basis []byte, blockLen, strongLen int)

type PullOpts struct {
	Daemon         bool
	Module         string   // daemon: module name for the module line
	Args           []string // server argument lines (daemon) – must describe the same options as List
	Negotiate      bool     // command mode: exchange protocol versions
	List           ListOpts
	Filters        []string
	DryRun         bool
	Plan           PlanFunc
	MaxData        int64
	ServerIsSender bool // expect statistics at the end (true for server-side senders)
	// AsServer: the reference receiver is the server and the real party is a
	// pushing client (daemon or command mode).
	AsServer     bool
	ServerSeed   int32
	ReadFilter   bool // the pushing client sends a filter list first (--delete)
	OptsFromArgs bool
	// PlanExtra > 0: after the regular files, Plan is also asked about (and may
	// request) ONE entry that is not a regular file - a hostile receiver. Which
	// one: the (PlanExtra-1 mod n)-th of the n such entries; a single one,
	// because such a request usually ends the session.
	PlanExtra int
	// HeadOnlyAbove > 0: a requested entry larger than this is asked for as a
	// whole file, but only the index and the checksum header of the sender's
	// answer are read and checked against the listed size; the session then
	// ends with ErrHeadOnly (the caller hangs up: nobody wants the gigabytes).
	HeadOnlyAbove int64
}

type FileResult struct {
	Idx      int
	Entry    Entry
	Req      Request
	Reply    *Reply
	Basis    []byte
	Data     []byte // reconstructed
	ApplyErr error
	SumOK    bool
}

// ErrHeadOnly ends a Pull that only wanted to see a checksum header.
var ErrHeadOnly = errors.New("refproto: head-only request answered, hanging up")

type PullResult struct {
	HeadOnly *SumHead // the header seen by a head-only request
	Status   string
	Lines    []string
	Seed     int32
	List     *FileList
	Sorted   []Entry
	Files    []*FileResult
	Stats    [3]int64
	Stage    string // how far the session got
}

// Pull runs a complete receiving session against a real sender.
func Pull(w *Wire, o PullOpts) (res *PullResult, err error) {
	res = &PullResult{Stage: "handshake"}
	if o.AsServer {
		return pullAsServer(w, o, res)
	}
	if o.Daemon {
		res.Status, res.Lines, err = w.DaemonClientHandshake(o.Module, o.Args)
		if err != nil {
			return res, err
		}
		if res.Status != "@RSYNCD: OK" {
			res.Stage = "refused"
			return res, nil
		}
	}
	res.Stage = "seed"
	if res.Seed, err = w.ClientStart(o.Negotiate); err != nil {
		return res, err
	}
	res.Stage = "filters"
	w.WriteFilterList(o.Filters)
	if err = w.Flush(); err != nil {
		return res, err
	}
	return pullTransfer(w, o, res)
}

func pullAsServer(w *Wire, o PullOpts, res *PullResult) (*PullResult, error) {
	var err error
	if o.Daemon {
		var args []string
		_, args, err = w.DaemonServerHandshake("")
		if err != nil {
			return res, err
		}
		res.Lines = args
		if o.OptsFromArgs {
			var del bool
			o.List, _, o.DryRun, del, _ = ArgOpts(args)
			o.ReadFilter = del
		}
	}
	res.Stage = "seed"
	if err = w.ServerStart(o.ServerSeed, o.Negotiate); err != nil {
		return res, err
	}
	res.Seed = o.ServerSeed
	if o.ReadFilter {
		res.Stage = "filters"
		if _, err = w.ReadFilterList(); err != nil {
			return res, err
		}
	}
	return pullTransfer(w, o, res)
}

func pullTransfer(w *Wire, o PullOpts, res *PullResult) (*PullResult, error) {
	var err error
	res.Stage = "flist"
	if res.List, err = w.ReadFileList(o.List); err != nil {
		return res, err
	}
	res.Sorted = res.List.Sorted()
	w.ListLen = len(res.Sorted)
	res.Stage = "transfer"
	order := make([]int, 0, len(res.Sorted))
	for idx := range res.Sorted {
		if res.Sorted[idx].IsReg() {
			order = append(order, idx)
		}
	}
	if o.PlanExtra > 0 {
		var other []int
		for idx := range res.Sorted {
			if !res.Sorted[idx].IsReg() {
				other = append(other, idx)
			}
		}
		if len(other) > 0 {
			order = append(order, other[(o.PlanExtra-1)%len(other)])
		}
	}
	for _, idx := range order {
		e := &res.Sorted[idx]
		if o.Plan == nil {
			continue
		}
		req, basis, bl, sl := o.Plan(idx, e, res.Seed)
		if !req {
			continue
		}
		fr := &FileResult{Idx: idx, Entry: *e, Basis: basis}
		var head SumHead
		var sums []BlockSum
		if basis != nil && bl > 0 {
			head, sums = Signature(basis, bl, sl, res.Seed)
		}
		fr.Req = Request{Idx: int32(idx), Head: head, Sums: sums}
		w.WriteRequest(int32(idx), head, sums, o.DryRun)
		if err = w.Flush(); err != nil {
			return res, err
		}
		if o.DryRun {
			v, err := w.GetInt32()
			if err != nil {
				return res, err
			}
			if v != int32(idx) {
				return res, fmt.Errorf("dry run: sender echoed index %d for request %d", v, idx)
			}
			res.Files = append(res.Files, fr)
			continue
		}
		if o.HeadOnlyAbove > 0 && e.Size > o.HeadOnlyAbove {
			v, err := w.GetInt32()
			if err != nil {
				return res, err
			}
			if v != int32(idx) {
				return res, fmt.Errorf("sender answered index %d to request %d", v, idx)
			}
			h, err := w.readSumHead()
			if err != nil {
				return res, err
			}
			res.HeadOnly = &h
			// a sender that transmits a whole file describes it with a header of
			// its own choosing; whatever the block length, count and remainder
			// must describe exactly the listed size
			if h.BlockLen <= 0 || h.Remainder < 0 || h.Remainder >= h.BlockLen || h.Count < 0 ||
				int64(h.Count) != (e.Size+int64(h.BlockLen)-1)/int64(h.BlockLen) || int64(h.Remainder) != e.Size%int64(h.BlockLen) {
				return res, fmt.Errorf("checksum header %+v does not describe a file of %d bytes (%q)", h, e.Size, e.Name)
			}
			res.Stage = "head-only"
			return res, ErrHeadOnly
		}
		rp, err := w.ReadReply(o.MaxData)
		if err != nil {
			return res, fmt.Errorf("reply for index %d (%q): %w", idx, e.Name, err)
		}
		fr.Reply = rp
		if rp.Idx != int32(idx) {
			return res, fmt.Errorf("sender answered index %d to request %d", rp.Idx, idx)
		}
		fr.Data, fr.ApplyErr = rp.Apply(basis)
		if fr.ApplyErr == nil {
			fr.SumOK = FileSum(fr.Data, res.Seed) == rp.FileSum
		}
		res.Files = append(res.Files, fr)
	}
	res.Stage = "phase1"
	w.PutInt32("phase", -1)
	if err = w.Flush(); err != nil {
		return res, err
	}
	if v, err := w.GetInt32(); err != nil || v != -1 {
		return res, fmt.Errorf("phase 1 echo: got %d, %v", v, err)
	}
	res.Stage = "phase2"
	w.PutInt32("phase", -1)
	if err = w.Flush(); err != nil {
		return res, err
	}
	if v, err := w.GetInt32(); err != nil || v != -1 {
		return res, fmt.Errorf("phase 2 echo: got %d, %v", v, err)
	}
	if o.ServerIsSender {
		res.Stage = "stats"
		a, b, c, err := w.ReadStats()
		if err != nil {
			return res, fmt.Errorf("stats: %w", err)
		}
		res.Stats = [3]int64{a, b, c}
	}
	res.Stage = "goodbye"
	w.PutInt32("goodbye", -1)
	if err = w.Flush(); err != nil {
		return res, err
	}
	res.Stage = "done"
	return res, nil
}

// ---- reference sender against a real receiver ------------------------------------------

// AnswerFunc produces the reply for a request; nil means "literal only, honest
// checksum".
type AnswerFunc func(sortedIdx int, e *Entry, data []byte, rq *Request, seed int32) (head SumHead, toks []Tok, sum [16]byte)

type SendOpts struct {
	// Role
	Server         bool // we are the server (read filter list first, send stats at the end)
	Daemon         bool // daemon handshake (server: DaemonServerHandshake; client: DaemonClientHandshake)
	Module         string
	Args           []string // client side: argument lines sent to the real daemon
	Negotiate      bool
	Seed           int32 // server side: the seed we announce
	DryRun         bool
	ReadFilters    bool     // read a filter list before sending the file list (server sender: always true)
	WriteFilters   []string // client sender with --delete: send a filter list first
	SendFilterList bool

	List    ListOpts
	Entries []Entry // wire order
	Users   IDList
	Groups  IDList
	IOErr   int32
	Style   EncodeStyle
	Data    map[string][]byte // file contents by name
	Answer  AnswerFunc
	Chunk   int
	// ArgList: derive List/DryRun from the args the real client sends (server role)
	OptsFromArgs bool
	// StopAfterList closes after the file list (hostile truncation is done by mutation instead)
	MaxRequests int
	// Unsolicited, if set, returns replies that are sent right after the file
	// list although nobody asked for them (a hostile sender).
	Unsolicited func(sorted []Entry, seed int32) []Unsol
	// Withhold, if set and true for a requested entry, makes the (hostile)
	// sender never answer that request; it still ends the phases properly.
	Withhold func(e *Entry) bool
}

// Unsol is a reply nobody requested.
type Unsol struct {
	Idx  int32
	Head SumHead
	Toks []Tok
	Sum  [16]byte
}

type SendResult struct {
	Module     string
	Args       []string
	Status     string
	Filters    []string
	Seed       int32
	Sorted     []Entry
	Requests   []*Request
	Stage      string
	GotGoodbye bool
}

// Send runs a complete sending session against a real receiver.
func Send(w *Wire, o SendOpts) (res *SendResult, err error) {
	res = &SendResult{Stage: "handshake"}
	if o.Server {
		if o.Daemon {
			res.Module, res.Args, err = w.DaemonServerHandshake("")
			if err != nil {
				return res, err
			}
			if o.OptsFromArgs {
				o.List, _, o.DryRun, _, _ = ArgOpts(res.Args)
			}
		}
		res.Stage = "seed"
		if err = w.ServerStart(o.Seed, o.Negotiate); err != nil {
			return res, err
		}
		res.Seed = o.Seed
		res.Stage = "filters"
		if res.Filters, err = w.ReadFilterList(); err != nil {
			return res, err
		}
	} else {
		if o.Daemon {
			var lines []string
			res.Status, lines, err = w.DaemonClientHandshake(o.Module, o.Args)
			_ = lines
			if err != nil {
				return res, err
			}
			if res.Status != "@RSYNCD: OK" {
				res.Stage = "refused"
				return res, nil
			}
		}
		res.Stage = "seed"
		if res.Seed, err = w.ClientStart(o.Negotiate); err != nil {
			return res, err
		}
		if o.SendFilterList {
			w.WriteFilterList(o.WriteFilters)
		}
	}
	res.Stage = "flist"
	w.WriteFileList(o.Entries, o.Users, o.Groups, o.IOErr, o.List, o.Style)
	if err = w.Flush(); err != nil {
		return res, err
	}
	if w.Truncated() {
		return res, ErrTruncated
	}
	sorted := append([]Entry(nil), o.Entries...)
	sort.SliceStable(sorted, func(i, j int) bool { return bytes.Compare([]byte(sorted[i].Name), []byte(sorted[j].Name)) < 0 })
	res.Sorted = sorted
	w.ListLen = len(sorted)
	if o.Unsolicited != nil {
		for _, u := range o.Unsolicited(sorted, res.Seed) {
			w.WriteReply(u.Idx, u.Head, u.Toks, u.Sum)
		}
		if err = w.Flush(); err != nil {
			return res, err
		}
	}
	res.Stage = "transfer"
	phase := 0
	for {
		rq, err := w.ReadRequest(o.DryRun)
		if err != nil {
			return res, fmt.Errorf("reading request: %w", err)
		}
		if rq.Idx == -1 {
			w.PutInt32("phase.echo", -1)
			if err = w.Flush(); err != nil {
				return res, err
			}
			if w.Truncated() {
				return res, ErrTruncated
			}
			phase++
			if phase == 2 {
				break
			}
			continue
		}
		res.Requests = append(res.Requests, rq)
		if o.MaxRequests > 0 && len(res.Requests) > o.MaxRequests {
			return res, fmt.Errorf("more than %d requests", o.MaxRequests)
		}
		if o.DryRun {
			w.PutInt32("rep.idx", rq.Idx)
			if err = w.Flush(); err != nil {
				return res, err
			}
			continue
		}
		if rq.Idx < 0 || int(rq.Idx) >= len(sorted) {
			return res, fmt.Errorf("receiver requested index %d outside the list of %d", rq.Idx, len(sorted))
		}
		e := &sorted[rq.Idx]
		if o.Withhold != nil && o.Withhold(e) {
			continue
		}
		data := o.Data[e.Name]
		var head SumHead
		var toks []Tok
		var sum [16]byte
		if o.Answer != nil {
			head, toks, sum = o.Answer(int(rq.Idx), e, data, rq, res.Seed)
		} else {
			head = rq.Head
			toks = LiteralToks(data, o.Chunk)
			sum = FileSum(data, res.Seed)
		}
		w.WriteReply(rq.Idx, head, toks, sum)
		if err = w.Flush(); err != nil {
			return res, err
		}
		if w.Truncated() {
			return res, ErrTruncated
		}
	}
	if o.Server {
		res.Stage = "stats"
		w.PutLong("stats.read", w.BytesIn)
		w.PutLong("stats.written", w.BytesOut)
		var total int64
		for _, e := range o.Entries {
			total += e.Size
		}
		w.PutLong("stats.size", total)
		if err = w.Flush(); err != nil {
			return res, err
		}
	}
	res.Stage = "goodbye"
	v, err := w.GetInt32()
	if err != nil {
		return res, fmt.Errorf("goodbye: %w", err)
	}
	if v != -1 {
		return res, fmt.Errorf("goodbye: got %d", v)
	}
	res.GotGoodbye = true
	res.Stage = "done"
	return res, nil
}
