package refproto

import (
	"bytes"
	"fmt"
	"strings"
)

// Passive wire-history monitors: decode the recorded byte streams of a session
// between two real parties.

// ParsedSender is the decoded sender→receiver stream of a pull from a server
// (daemon or command mode): seed, file list, replies, statistics.
type ParsedSender struct {
	Lines      []string
	Seed       int32
	List       *FileList
	Sorted     []Entry
	Replies    []*Reply
	Echoes     []int32 // dry-run index echoes
	Stats      [3]int64
	Frames     int
	Infos      []string
	ErrMsg     string
	Stage      string
	FrameSizes []int
	BadTag     bool
	Trailing   int
	// MuxBase: BytesIn value at which the multiplexed part starts (offsets of
	// replies are relative to the demultiplexed stream: subtract MuxBase)
	MuxBase     int64
	PreambleLen int // raw bytes before the first frame
}

// ParseServerSenderStream decodes what a server-side sender wrote.
func ParseServerSenderStream(wire []byte, daemon, negotiate, dryRun bool, o ListOpts) (*ParsedSender, error) {
	w := NewWire(bytes.NewReader(wire), discard{})
	ps := &ParsedSender{Stage: "handshake"}
	if daemon {
		for {
			l, err := w.GetLine()
			if err != nil {
				return ps, err
			}
			l = strings.TrimRight(l, "\n")
			ps.Lines = append(ps.Lines, l)
			if l == "@RSYNCD: OK" {
				break
			}
			if strings.HasPrefix(l, "@ERROR") || l == "@RSYNCD: EXIT" {
				ps.Stage = "refused"
				return ps, nil
			}
		}
	}
	if negotiate {
		if _, err := w.GetInt32(); err != nil {
			return ps, err
		}
	}
	ps.Stage = "seed"
	var err error
	if ps.Seed, err = w.GetInt32(); err != nil {
		return ps, err
	}
	d := w.EnableDemux()
	d.OnFrame = func(tag, n int) {
		if len(ps.FrameSizes) < 1<<20 {
			ps.FrameSizes = append(ps.FrameSizes, n)
		}
	}
	defer func() { ps.Frames, ps.Infos, ps.ErrMsg, ps.BadTag = d.Frames, d.Infos, d.ErrMsg, d.BadTag }()
	ps.Stage = "flist"
	if ps.List, err = w.ReadFileList(o); err != nil {
		return ps, err
	}
	ps.Sorted = ps.List.Sorted()
	ps.Stage = "transfer"
	phase := 0
	for phase < 2 {
		if dryRun {
			v, err := w.GetInt32()
			if err != nil {
				return ps, err
			}
			if v == -1 {
				phase++
			} else {
				ps.Echoes = append(ps.Echoes, v)
			}
			continue
		}
		rp, err := w.ReadReply(0)
		if err != nil {
			return ps, err
		}
		if rp.Idx == -1 {
			phase++
			continue
		}
		ps.Replies = append(ps.Replies, rp)
	}
	ps.Stage = "stats"
	a, b, c, err := w.ReadStats()
	if err != nil {
		return ps, err
	}
	ps.Stats = [3]int64{a, b, c}
	ps.Stage = "done"
	return ps, nil
}

// ParsedReceiver is the decoded receiver→sender stream (client side of a pull).
type ParsedReceiver struct {
	Lines    []string
	Args     []string
	Filters  []string
	Requests []*Request
	Phases   int
	Goodbye  bool
	Stage    string
	Trailing int
}

// ParseClientReceiverStream decodes what a pulling client wrote.
func ParseClientReceiverStream(wire []byte, daemon, negotiate, dryRun bool) (*ParsedReceiver, error) {
	w := NewWire(bytes.NewReader(wire), discard{})
	pr := &ParsedReceiver{Stage: "handshake"}
	if daemon {
		for i := 0; i < 2; i++ {
			l, err := w.GetLine()
			if err != nil {
				return pr, err
			}
			pr.Lines = append(pr.Lines, strings.TrimRight(l, "\n"))
		}
		for {
			l, err := w.GetLine()
			if err != nil {
				return pr, err
			}
			l = strings.TrimRight(l, "\n")
			if l == "" {
				break
			}
			pr.Args = append(pr.Args, l)
		}
	}
	if negotiate {
		if _, err := w.GetInt32(); err != nil {
			return pr, err
		}
	}
	pr.Stage = "filters"
	var err error
	if pr.Filters, err = w.ReadFilterList(); err != nil {
		return pr, err
	}
	pr.Stage = "requests"
	for pr.Phases < 2 {
		rq, err := w.ReadRequest(dryRun)
		if err != nil {
			return pr, err
		}
		if rq.Idx == -1 {
			pr.Phases++
			continue
		}
		pr.Requests = append(pr.Requests, rq)
	}
	pr.Stage = "goodbye"
	v, err := w.GetInt32()
	if err != nil {
		return pr, err
	}
	if v != -1 {
		return pr, fmt.Errorf("goodbye word is %d", v)
	}
	pr.Goodbye = true
	pr.Stage = "done"
	pr.Trailing = w.R.Buffered()
	return pr, nil
}

type discard struct{}

func (discard) Write(p []byte) (int, error) { return len(p), nil }

// SenderStreamOpts describes how a sender's byte stream is framed.
type SenderStreamOpts struct {
	ClientLines bool // daemon client preamble: greeting, module, argument lines, empty line
	ServerLines bool // daemon server preamble: lines up to "@RSYNCD: OK"
	Negotiate   bool // a 4-byte protocol version precedes
	Seed        bool // a 4-byte seed precedes the multiplexed part (server side)
	Mux         bool // stream is multiplexed after the seed
	FilterFirst bool // a filter list precedes the file list (client sender with --delete)
	DryRun      bool
	Stats       bool // three statistics values follow the second phase marker
}

// ParseSenderStream decodes the byte stream written by the sending side of a
// session (any role), as far as it goes.
func ParseSenderStream(wire []byte, so SenderStreamOpts, o ListOpts) (*ParsedSender, error) {
	w := NewWire(bytes.NewReader(wire), discard{})
	ps := &ParsedSender{Stage: "handshake"}
	if so.ServerLines {
		for {
			l, err := w.GetLine()
			if err != nil {
				return ps, err
			}
			l = strings.TrimRight(l, "\n")
			ps.Lines = append(ps.Lines, l)
			if l == "@RSYNCD: OK" {
				break
			}
			if strings.HasPrefix(l, "@ERROR") || l == "@RSYNCD: EXIT" {
				ps.Stage = "refused"
				return ps, nil
			}
		}
	}
	if so.ClientLines {
		for i := 0; ; i++ {
			l, err := w.GetLine()
			if err != nil {
				return ps, err
			}
			l = strings.TrimRight(l, "\n")
			ps.Lines = append(ps.Lines, l)
			if i >= 2 && l == "" {
				break
			}
		}
	}
	if so.Negotiate {
		if _, err := w.GetInt32(); err != nil {
			return ps, err
		}
	}
	var err error
	if so.Seed {
		ps.Stage = "seed"
		if ps.Seed, err = w.GetInt32(); err != nil {
			return ps, err
		}
	}
	ps.MuxBase = w.BytesIn
	ps.PreambleLen = int(w.BytesIn)
	if so.Mux {
		d := w.EnableDemux()
		d.OnFrame = func(tag, n int) {
			if len(ps.FrameSizes) < 1<<20 {
				ps.FrameSizes = append(ps.FrameSizes, n)
			}
		}
		defer func() { ps.Frames, ps.Infos, ps.ErrMsg, ps.BadTag = d.Frames, d.Infos, d.ErrMsg, d.BadTag }()
	}
	if so.FilterFirst {
		ps.Stage = "filters"
		if _, err = w.ReadFilterList(); err != nil {
			return ps, err
		}
	}
	ps.Stage = "flist"
	if ps.List, err = w.ReadFileList(o); err != nil {
		return ps, err
	}
	ps.Sorted = ps.List.Sorted()
	ps.Stage = "transfer"
	phase := 0
	for phase < 2 {
		if so.DryRun {
			v, err := w.GetInt32()
			if err != nil {
				return ps, err
			}
			if v == -1 {
				phase++
			} else {
				ps.Echoes = append(ps.Echoes, v)
			}
			continue
		}
		rp, err := w.ReadReply(0)
		if err != nil {
			return ps, err
		}
		if rp.Idx == -1 {
			phase++
			continue
		}
		ps.Replies = append(ps.Replies, rp)
	}
	if so.Stats {
		ps.Stage = "stats"
		a, b, c, err := w.ReadStats()
		if err != nil {
			return ps, err
		}
		ps.Stats = [3]int64{a, b, c}
	}
	ps.Stage = "done"
	ps.Trailing = w.R.Buffered()
	return ps, nil
}
