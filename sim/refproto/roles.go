package refproto

import (
	"fmt"
	"strings"
)

const Protocol = 27

// ---- handshakes -----------------------------------------------------------------

// DaemonClientHandshake plays the client side of the rsync daemon protocol.
// It returns the status line that ended the exchange ("@RSYNCD: OK",
// "@RSYNCD: EXIT" or an "@ERROR..." line) and any lines before it (MOTD or
// module listing).
func (w *Wire) DaemonClientHandshake(module string, args []string) (status string, lines []string, err error) {
	greet, err := w.GetLine()
	if err != nil {
		return "", nil, fmt.Errorf("server greeting: %w", err)
	}
	if !strings.HasPrefix(greet, "@RSYNCD: ") {
		return "", nil, fmt.Errorf("bad server greeting %q", greet)
	}
	w.PutString("greeting", fmt.Sprintf("@RSYNCD: %d\n", Protocol))
	w.PutString("module", module+"\n")
	for {
		line, err := w.GetLine()
		if err != nil {
			return "", lines, fmt.Errorf("waiting for daemon status after %q: %w", lines, err)
		}
		l := strings.TrimRight(line, "\r\n")
		if l == "@RSYNCD: OK" || l == "@RSYNCD: EXIT" || strings.HasPrefix(l, "@ERROR") {
			status = l
			break
		}
		lines = append(lines, l)
	}
	if status != "@RSYNCD: OK" {
		return status, lines, nil
	}
	for _, a := range args {
		w.PutString("arg", a+"\n")
	}
	w.PutString("argend", "\n")
	return status, lines, w.Flush()
}

// DaemonServerHandshake plays the server side towards a real client. It
// returns the requested module and the argument lines.
func (w *Wire) DaemonServerHandshake(reply string) (module string, args []string, err error) {
	w.PutString("greeting", fmt.Sprintf("@RSYNCD: %d\n", Protocol))
	if err := w.Flush(); err != nil {
		return "", nil, err
	}
	greet, err := w.GetLine()
	if err != nil {
		return "", nil, err
	}
	if !strings.HasPrefix(greet, "@RSYNCD: ") {
		return "", nil, fmt.Errorf("bad client greeting %q", greet)
	}
	m, err := w.GetLine()
	if err != nil {
		return "", nil, err
	}
	module = strings.TrimRight(m, "\r\n")
	if reply == "" {
		reply = "@RSYNCD: OK\n"
	}
	w.PutString("status", reply)
	if err := w.Flush(); err != nil {
		return module, nil, err
	}
	if !strings.HasPrefix(reply, "@RSYNCD: OK") {
		return module, nil, nil
	}
	for {
		l, err := w.GetLine()
		if err != nil {
			return module, args, err
		}
		l = strings.TrimRight(l, "\r\n")
		if l == "" {
			break
		}
		args = append(args, l)
	}
	return module, args, nil
}

// ServerStart sends the seed and switches the outgoing direction to
// multiplexed frames (server side, after the handshake).
func (w *Wire) ServerStart(seed int32, negotiate bool) error {
	if negotiate {
		if _, err := w.GetInt32(); err != nil {
			return err
		}
		w.PutInt32("version", Protocol)
	}
	w.PutInt32("seed", seed)
	if err := w.Flush(); err != nil {
		return err
	}
	w.MuxOut = true
	return nil
}

// ClientStart reads the seed and switches the incoming direction to
// multiplexed frames (client side).
func (w *Wire) ClientStart(negotiate bool) (seed int32, err error) {
	if negotiate {
		w.PutInt32("version", Protocol)
		if _, err := w.GetInt32(); err != nil {
			return 0, err
		}
	}
	seed, err = w.GetInt32()
	if err != nil {
		return 0, fmt.Errorf("seed: %w", err)
	}
	w.EnableDemux()
	return seed, nil
}

// ArgOpts derives the list options from daemon/server argument lines.
func ArgOpts(args []string) (o ListOpts, sender, dryRun, del, recursive bool) {
	for _, a := range args {
		switch {
		case a == "--sender":
			sender = true
		case a == "--delete":
			del = true
		case a == "--devices":
			o.Devices = true
		case a == "--specials":
			o.Specials = true
		case strings.HasPrefix(a, "--"):
		case strings.HasPrefix(a, "-"):
			for _, c := range a[1:] {
				switch c {
				case 'o':
					o.UID = true
				case 'g':
					o.GID = true
				case 'D':
					o.Devices, o.Specials = true, true
				case 'l':
					o.Links = true
				case 'c':
					o.Checksum = true
				case 'n':
					dryRun = true
				case 'r':
					recursive = true
				}
			}
		}
	}
	return
}

// ---- filter list -------------------------------------------------------------------

func (w *Wire) WriteFilterList(rules []string) {
	for _, r := range rules {
		w.PutInt32("filter.len", int32(len(r)))
		w.PutString("filter.rule", r)
	}
	w.PutInt32("filter.end", 0)
}

func (w *Wire) ReadFilterList() ([]string, error) {
	var out []string
	for {
		n, err := w.GetInt32()
		if err != nil {
			return out, err
		}
		if n == 0 {
			return out, nil
		}
		if n < 0 || n > 1<<20 {
			return out, fmt.Errorf("filter rule length %d", n)
		}
		b, err := w.GetBytes(int(n))
		if err != nil {
			return out, err
		}
		out = append(out, string(b))
	}
}

// ---- receiver role --------------------------------------------------------------------

// Tok is one element of a token stream: a literal run or a block reference.
type Tok struct {
	Lit   []byte
	Block int32 // valid when Lit == nil
}

// Request describes what the (reference or real) generator asked for.
type Request struct {
	Idx  int32
	Head SumHead
	Sums []BlockSum
}

// Reply is what a sender answered for one file.
type Reply struct {
	Idx      int32
	Head     SumHead
	Toks     []Tok
	FileSum  [16]byte
	Literal  int64 // literal bytes
	Matched  int64 // bytes covered by block references (by the echoed head)
	LitRuns  int
	BlockRef int
	// Offsets in the (demultiplexed) stream, for fault addressing.
	OffIdx  int64
	OffHead int64
	TokOffs []TokOff
	OffSum  int64
	OffEnd  int64
}

// TokOff locates one token: the 4-byte token word at Off, followed by Lit
// literal bytes (0 for block references and the end token).
type TokOff struct {
	Off int64
	Lit int
}

// ReadRequest reads index + sum head + sums. idx == -1 means phase end (no
// further fields). With dryRun only the index is present.
func (w *Wire) ReadRequest(dryRun bool) (*Request, error) {
	idx, err := w.GetInt32()
	if err != nil {
		return nil, err
	}
	rq := &Request{Idx: idx}
	if idx == -1 || dryRun {
		return rq, nil
	}
	if rq.Head, err = w.readSumHead(); err != nil {
		return nil, err
	}
	if rq.Head.Count < 0 || rq.Head.Count > 1<<24 || rq.Head.StrongLen < 0 || rq.Head.StrongLen > 16 {
		return rq, fmt.Errorf("refproto: bad sum head %+v", rq.Head)
	}
	rq.Sums = make([]BlockSum, rq.Head.Count)
	for i := range rq.Sums {
		v, err := w.GetInt32()
		if err != nil {
			return nil, err
		}
		rq.Sums[i].Weak = uint32(v)
		b, err := w.GetBytes(int(rq.Head.StrongLen))
		if err != nil {
			return nil, err
		}
		copy(rq.Sums[i].Strong[:], b)
	}
	return rq, nil
}

func (w *Wire) readSumHead() (h SumHead, err error) {
	if h.Count, err = w.GetInt32(); err != nil {
		return
	}
	if h.BlockLen, err = w.GetInt32(); err != nil {
		return
	}
	if h.StrongLen, err = w.GetInt32(); err != nil {
		return
	}
	h.Remainder, err = w.GetInt32()
	return
}

func (w *Wire) putSumHead(prefix string, h SumHead) {
	w.PutInt32(prefix+".count", h.Count)
	w.PutInt32(prefix+".blocklen", h.BlockLen)
	w.PutInt32(prefix+".stronglen", h.StrongLen)
	w.PutInt32(prefix+".remainder", h.Remainder)
}

// WriteRequest sends a generator request.
func (w *Wire) WriteRequest(idx int32, h SumHead, sums []BlockSum, dryRun bool) {
	w.PutInt32("req.idx", idx)
	if dryRun {
		return
	}
	w.putSumHead("req", h)
	for _, s := range sums {
		w.PutInt32("req.weak", int32(s.Weak))
		w.PutBytes("req.strong", s.Strong[:h.StrongLen])
	}
}

// ReadReply reads a sender's answer for one file: index, echoed sum head,
// tokens, whole-file sum.
func (w *Wire) ReadReply(maxData int64) (*Reply, error) {
	off0 := w.BytesIn
	idx, err := w.GetInt32()
	if err != nil {
		return nil, err
	}
	rp := &Reply{Idx: idx, OffIdx: off0}
	if idx == -1 {
		return rp, nil
	}
	rp.OffHead = w.BytesIn
	if rp.Head, err = w.readSumHead(); err != nil {
		return nil, err
	}
	var total int64
	for {
		tokOff := w.BytesIn
		t, err := w.GetInt32()
		if err != nil {
			return nil, fmt.Errorf("token: %w", err)
		}
		if t == 0 {
			rp.TokOffs = append(rp.TokOffs, TokOff{Off: tokOff})
			break
		}
		if t > 0 {
			rp.TokOffs = append(rp.TokOffs, TokOff{Off: tokOff, Lit: int(t)})
			b, err := w.GetBytes(int(t))
			if err != nil {
				return nil, fmt.Errorf("literal of %d: %w", t, err)
			}
			rp.Toks = append(rp.Toks, Tok{Lit: b})
			rp.Literal += int64(t)
			rp.LitRuns++
			total += int64(t)
		} else {
			rp.TokOffs = append(rp.TokOffs, TokOff{Off: tokOff})
			blk := -(t + 1)
			rp.Toks = append(rp.Toks, Tok{Block: blk})
			lo, hi := rp.Head.BlockRange(blk)
			rp.Matched += hi - lo
			rp.BlockRef++
			total += hi - lo
		}
		if maxData > 0 && total > maxData {
			return nil, fmt.Errorf("refproto: reply exceeds %d bytes", maxData)
		}
	}
	rp.OffSum = w.BytesIn
	b, err := w.GetBytes(16)
	if err != nil {
		return nil, fmt.Errorf("file sum: %w", err)
	}
	copy(rp.FileSum[:], b)
	rp.OffEnd = w.BytesIn
	return rp, nil
}

// Apply reconstructs the file a reply denotes over a basis.
func (rp *Reply) Apply(basis []byte) ([]byte, error) {
	var out []byte
	for _, t := range rp.Toks {
		if t.Lit != nil {
			out = append(out, t.Lit...)
			continue
		}
		if t.Block < 0 || t.Block >= rp.Head.Count {
			return nil, fmt.Errorf("block reference %d outside 0..%d", t.Block, rp.Head.Count-1)
		}
		lo, hi := rp.Head.BlockRange(t.Block)
		if hi > int64(len(basis)) {
			return nil, fmt.Errorf("block %d [%d,%d) beyond basis of %d bytes", t.Block, lo, hi, len(basis))
		}
		out = append(out, basis[lo:hi]...)
	}
	return out, nil
}

// WriteReply sends a sender's answer.
func (w *Wire) WriteReply(idx int32, h SumHead, toks []Tok, sum [16]byte) {
	w.PutInt32("rep.idx", idx)
	w.putSumHead("rep", h)
	for _, t := range toks {
		if t.Lit != nil {
			w.PutInt32("rep.littoken", int32(len(t.Lit)))
			w.PutBytes("rep.literal", t.Lit)
		} else {
			w.PutInt32("rep.blocktoken", -(t.Block + 1))
		}
	}
	w.PutInt32("rep.endtoken", 0)
	w.PutBytes("rep.filesum", sum[:])
}

// LiteralToks cuts data into literal runs of at most chunk bytes.
func LiteralToks(data []byte, chunk int) []Tok {
	if chunk <= 0 {
		chunk = 32 << 10
	}
	var out []Tok
	for len(data) > 0 {
		n := len(data)
		if n > chunk {
			n = chunk
		}
		out = append(out, Tok{Lit: data[:n:n]})
		data = data[n:]
	}
	return out
}

// ReadStats reads the three statistics values a server-side sender emits.
func (w *Wire) ReadStats() (rd, wr, size int64, err error) {
	if rd, err = w.GetLong(); err != nil {
		return
	}
	if wr, err = w.GetLong(); err != nil {
		return
	}
	size, err = w.GetLong()
	return
}
