// Package simfs is the simulated sender-side disk: an fs.FS over a real
// directory whose Read calls return short counts (and optionally an I/O error
// at a chosen offset or a directory-listing failure) driven by a seeded fault
// plan. *os.File never produces short reads; this does.
package simfs

import (
	"errors"
	"io"
	"io/fs"
	"os"
	"path/filepath"
	"sync"
)

type Plan struct {
	Seed       uint64 `json:"seed"`
	ShortReads bool   `json:"short_reads"`
	MaxRead    int    `json:"max_read,omitempty"` // upper bound of a single Read (0: 1..64KiB drawn)
	// EIOFile/EIOAt: reading this file fails at (or after) this offset.
	EIOFile string `json:"eio_file,omitempty"`
	EIOAt   int64  `json:"eio_at,omitempty"`
	// FailReadDir: listing this directory fails.
	FailReadDir string `json:"fail_readdir,omitempty"`
	// VanishInfo: the entry with this path is returned by ReadDir but its
	// Info() fails with ENOENT (it vanished between readdir and lstat).
	VanishInfo string `json:"vanish_info,omitempty"`
}

type FS struct {
	root string
	plan Plan
	mu   sync.Mutex
	rng  uint64
	// counters (reach probes)
	VanishCount    int
	ShortReadCount int
	EIOCount       int
	ReadDirFails   int
}

func New(root string, plan Plan) *FS {
	return &FS{root: root, plan: plan, rng: plan.Seed*2654435761 + 1}
}

func (f *FS) next() uint64 {
	f.rng += 0x9e3779b97f4a7c15
	z := f.rng
	z = (z ^ (z >> 30)) * 0xbf58476d1ce4e5b9
	z = (z ^ (z >> 27)) * 0x94d049bb133111eb
	return z ^ (z >> 31)
}

func (f *FS) path(name string) (string, error) {
	if !fs.ValidPath(name) {
		return "", &fs.PathError{Op: "open", Path: name, Err: fs.ErrInvalid}
	}
	return filepath.Join(f.root, filepath.FromSlash(name)), nil
}

func (f *FS) Open(name string) (fs.File, error) {
	p, err := f.path(name)
	if err != nil {
		return nil, err
	}
	of, err := os.Open(p)
	if err != nil {
		return nil, err
	}
	return &file{File: of, fs: f, name: name}, nil
}

func (f *FS) ReadDir(name string) ([]fs.DirEntry, error) {
	if f.plan.FailReadDir != "" && name == f.plan.FailReadDir {
		f.mu.Lock()
		f.ReadDirFails++
		f.mu.Unlock()
		return nil, &fs.PathError{Op: "readdir", Path: name, Err: errors.New("input/output error (injected)")}
	}
	p, err := f.path(name)
	if err != nil {
		return nil, err
	}
	es, err := os.ReadDir(p)
	if err != nil || f.plan.VanishInfo == "" {
		return es, err
	}
	for i, e := range es {
		full := e.Name()
		if name != "." {
			full = name + "/" + e.Name()
		}
		if full == f.plan.VanishInfo {
			es[i] = vanished{DirEntry: e, fs: f}
		}
	}
	return es, nil
}

type vanished struct {
	fs.DirEntry
	fs *FS
}

func (v vanished) Info() (fs.FileInfo, error) {
	v.fs.mu.Lock()
	v.fs.VanishCount++
	v.fs.mu.Unlock()
	return nil, &fs.PathError{Op: "lstat", Path: v.Name(), Err: fs.ErrNotExist}
}

func (f *FS) ReadLink(name string) (string, error) {
	p, err := f.path(name)
	if err != nil {
		return "", err
	}
	return os.Readlink(p)
}

func (f *FS) Lstat(name string) (fs.FileInfo, error) {
	p, err := f.path(name)
	if err != nil {
		return nil, err
	}
	return os.Lstat(p)
}

func (f *FS) Stat(name string) (fs.FileInfo, error) {
	p, err := f.path(name)
	if err != nil {
		return nil, err
	}
	return os.Lstat(p)
}

type file struct {
	*os.File
	fs   *FS
	name string
	off  int64
}

func (fl *file) Read(p []byte) (int, error) {
	f := fl.fs
	f.mu.Lock()
	if f.plan.EIOFile != "" && f.plan.EIOFile == fl.name && fl.off+int64(len(p)) > f.plan.EIOAt {
		if fl.off >= f.plan.EIOAt {
			f.EIOCount++
			f.mu.Unlock()
			return 0, &fs.PathError{Op: "read", Path: fl.name, Err: errors.New("input/output error (injected)")}
		}
		p = p[:f.plan.EIOAt-fl.off]
	}
	if f.plan.ShortReads && len(p) > 1 {
		max := f.plan.MaxRead
		if max <= 0 {
			switch f.next() % 4 {
			case 0:
				max = 1 + int(f.next()%16)
			case 1:
				max = 1 + int(f.next()%1024)
			default:
				max = 1 + int(f.next()%65536)
			}
		}
		if max < len(p) {
			p = p[:max]
			f.ShortReadCount++
		}
	}
	f.mu.Unlock()
	n, err := fl.File.Read(p)
	fl.off += int64(n)
	return n, err
}

func (fl *file) Seek(off int64, whence int) (int64, error) {
	n, err := fl.File.Seek(off, whence)
	if err == nil {
		fl.off = n
	}
	return n, err
}

var _ fs.ReadDirFS = (*FS)(nil)
var _ fs.ReadLinkFS = (*FS)(nil)
var _ io.Seeker = (*file)(nil)
