# Sourced by every /verif script. Offline Go environment; picks the repository's
# own toolchain (go1.25.0 from the module cache) and falls back to go1.26.8.
export GOFLAGS=-mod=mod GOPROXY=off GOSUMDB=off GOTOOLCHAIN=local GONOSUMDB=* GONOSUMCHECK=1 GOFLAGS=-mod=mod
export CGO_ENABLED=${CGO_ENABLED:-1}
_g125=/root/go/pkg/mod/golang.org/toolchain@v0.0.1-go1.25.0.linux-amd64/bin
if [ -x "$_g125/go" ]; then
  export PATH="$_g125:$PATH"
elif [ -x /opt/veriftools/go1.26.8/bin/go ]; then
  export PATH="/opt/veriftools/go1.26.8/bin:$PATH"
fi
export VERIF_ROOT=/verif
export VERIF_SCRATCH=${VERIF_SCRATCH:-/dev/shm/verif-scratch}
