#!/bin/bash
# usage: tools/mkround.sh  -- creates /tmp/wt/<ID> worktrees of /repo HEAD, property text files
# (property text + one-line list of already used ideas from seeded/*/meta.json) and PROMPT.txt.
mkdir -p /tmp/wt; cp /verif/tools/seed_agent_prompt.txt /tmp/wt/PROMPT.txt
python3 - <<'PY'
import json,glob
props={json.loads(l)['id']:json.loads(l) for l in open('/verif/properties.jsonl')}
for pid,p in props.items():
    used=[json.load(open(m))['breaks'] for m in sorted(glob.glob(f'/verif/seeded/{pid}-*/meta.json'))]
    with open(f'/tmp/wt/{pid}.property.txt','w') as f:
        f.write(f"Property {pid}: {p['title']}\n\n{p['statement']}\n\nALREADY USED IDEAS (do not repeat these or close variants):\n")
        for u in used: f.write(f" - {u}\n")
PY
for i in $(seq -w 1 20); do git -C /repo worktree add --detach /tmp/wt/C$i HEAD >/dev/null 2>&1 || echo "worktree C$i failed"; done
git -C /repo worktree list | wc -l
