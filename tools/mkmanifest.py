#!/usr/bin/env python3
"""Regenerates /verif/MANIFEST.json from the table below (kept valid at all times)."""
import json, subprocess, os

BUILT = {
 "C20": dict(cat="exploration", ref="DESIGN.md §6 C20",
   text="The real daemon entry point serves its authorised and anonymous SSH listeners on a simulated network inside the worker; x/crypto/ssh clients with generated keys of every supported type test admission against authorized_keys files in several layouts, and on the anonymous listener send exec command lines from a grammar over the option parser's vocabulary plus shell/subsystem/pty/env requests and foreign channel types; refusal, channel output and a canary ring (incl. a canary script that records its execution) are the oracles.",
   note="Input/configuration-quantified; built with the repository's nonamespacing tag, GOKRAZY_RSYNC_PRIVDROP=1 and the listener hook (tag verif). SSH uses crypto/rand, so event logs differ between runs while verdicts do not.",
   tech="deterministic simulation as vehicle (in-process SSH server on a simulated network via the guarded listener hook); canary-ring and exit-status oracles"),

 "C01": dict(cat="exploration", ref="DESIGN.md §6 C01",
   text="Seeded deterministic-simulation search: real client and real daemon code run in one process over a scheduled simulated transport in arrangements A1-A4; hundreds (quick) to tens of thousands (thorough) of generated (tree, prior destination, options, sources, arrangement, transport personality) scenarios are judged by a reference model of selection and update rule. Evidence of absence of violations proportional to the coverage counters; not a proof.",
   note="Trusted: reference model verif/sim/model, fstree snapshotting, the simulator kernel. A4 is not schedule-controlled. Known findings listed in known_findings.json are reported as KNOWN-FINDING.",
   tech="deterministic simulation (seeded scheduler over simulated transport) + reference-model oracle"),
 "C02": dict(cat="exploration", ref="DESIGN.md §6 C02",
   text="Seeded simulation search with an independent protocol-27 peer: the reference receiver sends the real sender checksum sets of its own choosing (block lengths 1..131072, strong lengths 2..16, bases with colliding weak sums, duplicated blocks, recurring remainder blocks, short-reading simulated disk) and checks that the token stream reproduces the source; the reference sender feeds the real receiver scripted token streams. The thorough tier additionally enumerates all targets x bases over {a,b} up to length 6 x block lengths 1..4.",
   note="Trusted: verif/sim/refproto (cross-checked against tridge rsync 3.2.7 --protocol=27 by go test ./refproto), fstree content generator.",
   tech="deterministic simulation with a reference protocol peer as oracle; bounded enumeration of a small-alphabet sub-space"),
 "C03": dict(cat="fault_enumeration", ref="DESIGN.md §6 C03",
   text="Single faults enumerated by protocol position: the fault-free run's wire history is decoded to locate every token word, literal byte and trailer byte of every file; faulted re-runs flip one bit at a drawn position (10 per scenario quick, 30 thorough), or let an external writer change the basis at a drawn scheduler step; a reference sender additionally sends perturbed token streams under the true checksum. After every faulted run each file must hold its previous or exactly the sender's content, and success implies full update.",
   note="Positions are sampled per scenario, not exhausted; huge-length token flips and index/sum-head flips are outside the stated quantifier. Trusted: refproto parser, fstree snapshots.",
   tech="deterministic simulation with fault injection: protocol-addressed bit flips, basis mutation at scheduler steps, lying reference sender"),
 "C17": dict(cat="exploration", ref="DESIGN.md §6 C17",
   text="A causal re-framing middlebox re-cuts the real server's multiplexed output into frames of adversarial sizes with info-frame runs (up to 500), empty frames and error frames; the client's result must equal that of the un-reframed run, and error frames must surface with the server's message. Every frame the real server emits is checked, also on the error path (upload damaged in flight so that the server fails while its generator is still writing).",
   note="Frame sizes above the documented 256 KiB limit are not generated. One known finding (server message lost when the generator's write error wins) is reported as KNOWN-FINDING.",
   tech="deterministic simulation with a re-framing transport stage; differential oracle against the un-reframed run; frame well-formedness monitor under fault"),

 "C04": dict(cat="fault_enumeration", ref="DESIGN.md §6 C04",
   text="Every quiescent point of every simulated session (receiver parked in Read at byte N) is a checked crash point: each listed destination path must be old-complete, new-complete or legitimately absent. On top, connection cuts of either direction and freezes of the receiving party are injected at sampled byte offsets (6 per scenario quick, 30 thorough); after an error return no temporary file may remain. The kernel's inotify history of every run shows whether a replaced path was ever unlinked in between (instants between system calls).",
   note="Crash points are wire-token boundaries; crashes between two syscalls of one goroutine and power-loss durability are not simulated (no storage seam). One known finding (leftover temp file when the generator's write fails first) is reported as KNOWN-FINDING.",
   tech="deterministic simulation with fault injection: step invariant + cut/freeze faults at byte offsets"),
 "C05": dict(cat="exploration", ref="DESIGN.md §6 C05",
   text="A hostile reference sender feeds the real receiving client and the real writable daemon module file lists from an escape-vector grammar (dot-dot, absolute names, pre-existing symlinks, symlinks sent in the same list, sub-directory arguments) x entry types x options; a ring of canary objects around the destination must stay identical during and after every session, and no request may carry a canary's block signature.",
   note="Runs as root so chown/mknod are really attempted. Trusted: refproto sender, fstree snapshots.",
   tech="deterministic simulation with a hostile reference peer; canary-ring invariant at scheduler steps"),
 "C06": dict(cat="exploration", ref="DESIGN.md §6 C06",
   text="A hostile reference receiver requests paths from a traversal grammar from the real daemon (directory- and fs.FS-backed modules with prefix-related names); the raw server byte stream is scanned for canary content, checksums and names, and every decoded list entry must be an object inside the module.",
   note="fs.FS modules are given an FS confined to the directory (os.Root.FS); with os.DirFS outside objects reached through symlinks would be part of the FS by definition.",
   tech="deterministic simulation with a hostile reference peer; wire scan for canary secrets"),
 "C07": dict(cat="exploration", ref="DESIGN.md §6 C07",
   text="Real pushing client and hostile reference sender attack read-only modules (directory- and fs.FS-backed, next to writable modules with prefix-related names) through Serve(simulated TCP) and HandleDaemonConn with random receive-mode flag sets and sub-paths; module snapshots are compared at scheduler steps and at the end, and the client must see an error.",
   note="Trusted: refproto, fstree snapshots.",
   tech="deterministic simulation; snapshot invariant on the read-only module; hostile reference peer"),
 "C08": dict(cat="fault_enumeration", ref="DESIGN.md §6 C08",
   text="Single-field mutations of valid sessions over every named protocol field and value class, parser-vocabulary argument lines, connection cuts at byte offsets and noise are thrown at the real daemon behind its real accept loop (a panic or os.Exit really kills the worker and is observed by the driver) and at the real client; after every hostile session a canonical request must be served correctly.",
   note="Sampling over (field, occurrence, class); stalled peers and multi-gigabyte declarations are excluded as the property states.",
   tech="deterministic simulation with a byzantine reference peer (structure-aware mutation, cuts, noise) and process-level crash isolation"),
 "C19": dict(cat="exploration", ref="DESIGN.md §6 C19",
   text="The real accept loop serves simulated connections carrying chosen peer addresses; an independent first-match model (net/netip) decides what each (rule list, address) pair must yield: OK and a complete session, or an @ERROR line followed by EOF. quick samples, thorough enumerates all 40495 rule lists of length 0..3 over the 34-rule pool against all 26 addresses.",
   note="Pure decision function: input/configuration-quantified; the simulated network is needed for arbitrary peer addresses.",
   tech="deterministic simulation (simulated listener with arbitrary peer addresses); bounded enumeration of the rule-pool product in the thorough tier"),

 "C09": dict(cat="exploration", ref="DESIGN.md §6 C09",
   text="Seeded search over source/destination tree pairs with extraneous entries in every sort position, exclude rules, pull/push/local arrangements and a simulated sender-disk error raising the I/O-error flag; reference-model oracle on the exact entry set after the run.",
   note="Trusted: model of --delete and exclude protection (verif/sim/model, sem.go).",
   tech="deterministic simulation + reference-model oracle; sender-disk fault injection"),
 "C10": dict(cat="exploration", ref="DESIGN.md §6 C10",
   text="Seeded search over trees with every entry type in every update situation x option subsets x arrangements with -n; full destination snapshot compared before/after and during the run; the sender's wire stream is decoded and must contain no file data.",
   note="A4 has no wire tap. Trusted: fstree snapshots, refproto stream parser.",
   tech="deterministic simulation: snapshot invariant + wire-history monitor"),
 "C11": dict(cat="exploration", ref="DESIGN.md §6 C11",
   text="Seeded search over permission values, mtimes across the int32 range, symlink targets, devices, foreign ids and every subset of -p -t -l -D -o -g in both directions, executed in-process at two privilege levels (root workers and uid-65534 workers); lstat oracle on exactly the promised fields; name-based id mapping checked with the reference sender.",
   note="Input/configuration-quantified: no schedule or fault decides this property; the simulator is the execution vehicle. Directory mtimes and modes of new files without -p are unconstrained.",
   tech="deterministic simulation as vehicle; lstat oracle against the source tree; reference sender for id lists"),
 "C12": dict(cat="exploration", ref="DESIGN.md §6 C12",
   text="The complete update decision table (destination state x mtime relation x content relation) is laid out in every run for one of the 8 option combinations of -t/-c/-I; the oracle is the set of indices the real generator requests from the reference sender. Every fourth run checks repeat-sync idempotence and change pick-up between real sender and real receiver by decoding both wire directions.",
   note="Trusted: refproto sender/parsers, model.NeedsTransfer (written from the property statement).",
   tech="deterministic simulation with a reference sender; exhaustive decision table per option combination"),
 "C15": dict(cat="exploration", ref="DESIGN.md §6 C15",
   text="An independent protocol-27 implementation (validated against tridge rsync 3.2.7) strictly decodes handshake, file list, id lists and I/O-error word emitted by the real sender in daemon, command and client roles and requests files by its own index; it encodes lists with every legal compression/length form for the real receiver, whose list-only output must reproduce them.",
   note="Trusted base: verif/sim/refproto. Encode mode observes the receiver via its listing output.",
   tech="deterministic simulation with an independent protocol implementation as differential oracle"),

 "C13": dict(cat="exploration", ref="DESIGN.md §6 C13",
   text="Seeded search over trees and lists of 0-4 plain-name rules (exclude/include/-f) in pull, push and local arrangements; destination entry set must equal the first-match-wins model; wildcard rules must give an error or rsync's selection.",
   note="Input/configuration-quantified: the simulator is the execution vehicle (in-process two-party sessions); schedule varies per run but does not decide the property.",
   tech="deterministic simulation as vehicle + reference-model oracle over generated rule lists"),
 "C14": dict(cat="exploration", ref="DESIGN.md §6 C14",
   text="The same scenario is run through all five arrangements for sampled subsets of 20 options on a tree with every entry type; desynchronisation shows as error, crash or (exactly detected) deadlock; destinations are compared with each other and with the model's entry set.",
   note="Option subsets are sampled, not enumerated. Runs as root.",
   tech="deterministic simulation with exact deadlock detection; cross-arrangement differential oracle"),
 "C16": dict(cat="exploration", ref="DESIGN.md §6 C16",
   text="Literal bytes and block references are counted in the real sender's token stream (decoded by the reference parser) for high-entropy files with 0-4 unaligned edits, with the real generator's signatures and with reference signatures at other block sizes; identical file => 0 literal bytes, otherwise literal <= edited bytes + 3 blocks per break + 1 block.",
   note="Bound constant deliberately loose so a correct sender never trips it.",
   tech="deterministic simulation + wire-history monitor (literal-byte accounting)"),

 "C18": dict(cat="exploration", ref="DESIGN.md §6 C18",
   text="Seeded schedule search: every Read/Write of both parties is a scheduled event, so 'no enabled action while operations are pending' is an exact deadlock detector over the capacity {0,1,7,64,64Ki,inf}^2 x chunking x bias x stall matrix; 2-32 concurrent sessions against one Server are interleaved by the same tape and compared with their solo results; data races are sought with the Go race detector on free-running sessions at GOMAXPROCS 1/4/16. Sampling, not enumeration.",
   note="Trusted: simulator kernel (quiescence from testing/synctest), fstree snapshots. Race part is happens-before analysis, not schedule search. A4 (io.Pipe inside the code under test) is only hang-checked.",
   tech="deterministic simulation: seeded scheduler with exact deadlock detection + race detector on free-running sessions"),
}

NOT_YET = "check not completed yet in this build (see DESIGN.md §12 fallback rule)"

def main():
    props = [json.loads(l) for l in open('/verif/properties.jsonl')]
    try:
        commits = subprocess.check_output(['git','-C','/repo','log','--format=%H %s'], text=True).splitlines()
    except Exception:
        commits = []
    hook_commits = [c.split()[0] for c in commits if c.split(' ',1)[1].startswith('verif:')]
    m = {
     "version": 1,
     "setup_cmd": "./setup.sh",
     "hooks": {
       "guard": "verif",
       "enable": "go test -c -tags verif[,nonamespacing] (the worker test binary is rebuilt from /repo's working tree by ./vcheck on every check; C20 adds the repository's existing nonamespacing tag)",
       "baseline_off_cmd": "cd /repo && . /verif/env.sh && go test -vet=off -count=1 -timeout 25m ./...",
       "source_commits": hook_commits,
       "add_only": True,
     },
     "engines": [{"name": "vcheck", "path": "/verif/vcheck", "serves_properties": sorted(BUILT),
                  "kind_free_text": "deterministic simulation with fault injection: seeded scheduler over a simulated transport/listener/clock running the real client and daemon code in one process; reference protocol-27 peer and reference model as oracles"}],
     "checks": [],
     "not_applicable": [],
     "notes": "All checks: ./vcheck run <id> --tier quick|thorough, VERIF_SEED honoured, exit 0/1/2, replay with ./vcheck replay <file>. Known findings: /verif/known_findings.json.",
    }
    for p in props:
        pid = p['id']
        if pid in BUILT:
            b = BUILT[pid]
            m["checks"].append({
              "property_id": pid,
              "quick_cmd": f"./vcheck run {pid} --tier quick",
              "thorough_cmd": f"./vcheck run {pid} --tier thorough",
              "evidence_file": f"/verif/evidence/{pid}.json",
              "replay_cmd_template": "./vcheck replay {path}",
              "engine": "vcheck",
              "level_claimed": {"category": b["cat"], "text": b["text"], "design_ref": b["ref"]},
              "level_note": b["note"],
              "technique": b["tech"],
            })
        else:
            m["not_applicable"].append({"property_id": pid, "reason": NOT_YET})
    json.dump(m, open('/verif/MANIFEST.json','w'), indent=1)
    print("checks:", len(m["checks"]), "not_applicable:", len(m["not_applicable"]))

main()
