#!/usr/bin/env python3
"""Regenerates /verif/MANIFEST.json from the table below (kept valid at all times)."""
import json, subprocess, os

BUILT = {
 "C01": dict(cat="exploration", ref="DESIGN.md §6 C01",
   text="Seeded deterministic-simulation search: real client and real daemon code run in one process over a scheduled simulated transport in arrangements A1-A4; hundreds (quick) to tens of thousands (thorough) of generated (tree, prior destination, options, sources, arrangement, transport personality) scenarios are judged by a reference model of selection and update rule. Evidence of absence of violations proportional to the coverage counters; not a proof.",
   note="Trusted: reference model verif/sim/model, fstree snapshotting, the simulator kernel. A4 is not schedule-controlled. Known findings listed in known_findings.json are reported as KNOWN-FINDING.",
   tech="deterministic simulation (seeded scheduler over simulated transport) + reference-model oracle"),
 "C18": dict(cat="exploration", ref="DESIGN.md §6 C18",
   text="Seeded schedule search: every Read/Write of both parties is a scheduled event, so 'no enabled action while operations are pending' is an exact deadlock detector over the capacity {0,1,7,64,64Ki,inf}^2 x chunking x bias x stall matrix; 2-32 concurrent sessions against one Server are interleaved by the same tape and compared with their solo results; data races are sought with the Go race detector on free-running sessions at GOMAXPROCS 1/4/16. Sampling, not enumeration.",
   note="Trusted: simulator kernel (quiescence from testing/synctest), fstree snapshots. Race part is happens-before analysis, not schedule search. A4 (io.Pipe inside the code under test) is only hang-checked.",
   tech="deterministic simulation: seeded scheduler with exact deadlock detection + race detector on free-running sessions"),
}

NOT_YET = "check not completed yet in this build (see DESIGN.md §12 fallback rule)"

def main():
    props = [json.loads(l) for l in open('/verif/properties.jsonl')]
    try:
        commits = subprocess.check_output(['git','-C','/repo','log','--format=%H %s'], text=True).splitlines()
    except Exception:
        commits = []
    hook_commits = [c.split()[0] for c in commits if c.split(' ',1)[1].startswith('verif:')]
    m = {
     "version": 1,
     "setup_cmd": "./setup.sh",
     "hooks": {
       "guard": "verif",
       "enable": "go test -c -tags verif (the worker test binary is rebuilt from /repo's working tree by ./vcheck on every check; C20 adds the repository's existing nonamespacing tag)",
       "baseline_off_cmd": "cd /repo && . /verif/env.sh && go test -vet=off -count=1 -timeout 25m ./...",
       "source_commits": hook_commits,
       "add_only": True,
     },
     "engines": [{"name": "vcheck", "path": "/verif/vcheck", "serves_properties": sorted(BUILT),
                  "kind_free_text": "deterministic simulation with fault injection: seeded scheduler over a simulated transport/listener/clock running the real client and daemon code in one process; reference protocol-27 peer and reference model as oracles"}],
     "checks": [],
     "not_applicable": [],
     "notes": "All checks: ./vcheck run <id> --tier quick|thorough, VERIF_SEED honoured, exit 0/1/2, replay with ./vcheck replay <file>. Known findings: /verif/known_findings.json.",
    }
    for p in props:
        pid = p['id']
        if pid in BUILT:
            b = BUILT[pid]
            m["checks"].append({
              "property_id": pid,
              "quick_cmd": f"./vcheck run {pid} --tier quick",
              "thorough_cmd": f"./vcheck run {pid} --tier thorough",
              "evidence_file": f"/verif/evidence/{pid}.json",
              "replay_cmd_template": "./vcheck replay {path}",
              "engine": "vcheck",
              "level_claimed": {"category": b["cat"], "text": b["text"], "design_ref": b["ref"]},
              "level_note": b["note"],
              "technique": b["tech"],
            })
        else:
            m["not_applicable"].append({"property_id": pid, "reason": NOT_YET})
    json.dump(m, open('/verif/MANIFEST.json','w'), indent=1)
    print("checks:", len(m["checks"]), "not_applicable:", len(m["not_applicable"]))

main()
