#!/bin/bash
# usage: confirm.sh <prop> <m> <destdir-in-worktree> <test-run-regex>
# confirms: builds with change, full suite passes with change, demo FAILS with change, demo PASSES without.
P=$1; M=$2; D=$3; RX=$4
WT=/tmp/wt/$P
. /verif/env.sh
cd $WT && git checkout -q -- . && git clean -fdq -e _seed
mkdir -p $D && cp _seed/${M}_demo_test.go.txt $D/zz_${M}_demo_test.go
clean=$(go test -vet=off -count=1 -timeout 300s -run "$RX" ./$D/ 2>&1 | tail -1 | cut -c1-80)
git apply _seed/$M.diff || { echo "$P $M: patch does not apply"; exit; }
build=$(go build ./... 2>&1 | tail -1)
withc=$(go test -vet=off -count=1 -timeout 300s -run "$RX" ./$D/ 2>&1 | tail -1 | cut -c1-80)
rm -f $D/zz_${M}_demo_test.go; rmdir $D 2>/dev/null
suite=$(go test -vet=off -count=1 -timeout 900s ./... 2>&1 | grep -v "no test files" | grep -v "^ok" | tr '\n' ' ' | cut -c1-200)
if echo "$suite" | grep -q "interop"; then suite2=$(go test -vet=off -count=1 -timeout 300s ./integration/interop/ 2>&1 | tail -1); suite="$suite | retry interop: $suite2"; fi
git checkout -q -- . && git clean -fdq -e _seed
echo "$P $M: build=[${build:-ok}] demo_clean=[$clean] demo_with_change=[$withc] suite_with_change=[${suite:-all ok}]"
