#!/bin/bash
# usage: evalseed.sh <worktree> <patch.diff> <check-id>... 
# Applies the patch in the scratch worktree, runs the quick checks against that
# worktree (VERIF_REPO, /repo untouched), restores the worktree.
set -u
WT=$1; PATCH=$2; shift 2
cd "$WT" || exit 2
git checkout -q -- . 2>/dev/null
if ! git apply "$PATCH"; then echo "PATCH DOES NOT APPLY"; exit 2; fi
for id in "$@"; do
  ( cd /verif && VERIF_REPO="$WT" VERIF_SCRATCH=/dev/shm/verif-seedeval ./vcheck run "$id" --tier quick 2>&1 | grep -E "^(VIOLATION|KNOWN-FINDING|property=|  kind|build failed)" | cut -c1-260 )
done
cd "$WT" && git checkout -q -- .
