#!/bin/bash
# usage: round3.sh <ID>...   (evaluates and confirms _seed/m1,m2 of each worktree)
cd /verif
for p in "$@"; do
 git -C /tmp/wt/$p checkout -q --detach main 2>&1 | tail -1
 for m in m1 m2; do
  f=/tmp/wt/$p/_seed/$m.diff
  [ -f $f ] || { echo "EVAL $p $m: no diff"; continue; }
  r=$(tools/evalseed.sh /tmp/wt/$p $f $p 2>&1 | grep -E "^(VIOLATION|property=|PATCH|build failed)" | sed -e 's#replay=/verif/replays/##' | cut -c1-150 | tr '\n' ' ')
  echo "EVAL $p $m: $r"
  mkdir -p /dev/shm/r4replays/$p-$m; mv replays/$p-*.json /dev/shm/r4replays/$p-$m/ 2>/dev/null
 done
done
for p in "$@"; do
 for m in m1 m2; do
  d=/tmp/wt/$p/_seed/${m}_demo_test.go.txt
  [ -f $d ] || continue
  hdr=$(head -1 $d)
  place=$(echo "$hdr" | sed -n 's#.*PLACE: *\([^ ]*\) .*#\1#p'); rx=$(echo "$hdr" | sed -n "s#.*RUN: *##p" | tr -d "'\"")
  /verif/tools/confirmseed.sh $p $m "${place%/}" "$rx" 2>&1 | grep -E "^C[0-9]" | sed -e 's/suite_with_change=\[20[0-9].*/suite_with_change=[log noise]/' | cut -c1-300
 done
done
echo ROUND3 PART DONE
