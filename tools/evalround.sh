#!/bin/bash
cd /verif
for p in C01 C02 C03 C04 C05 C06 C07 C08 C09 C10 C11 C12 C13 C14 C15 C16 C17 C18 C19 C20; do
 for m in m1 m2; do
  f=/tmp/wt/$p/_seed/$m.diff
  [ -f $f ] || { echo "EVAL $p $m: no diff"; continue; }
  r=$(tools/evalseed.sh /tmp/wt/$p $f $p 2>&1 | grep -E "^(VIOLATION|property=|PATCH|build failed)" | sed -e 's#replay=/verif/replays/##' | cut -c1-150 | tr '\n' ' ')
  echo "EVAL $p $m: $r"
  mkdir -p /dev/shm/r2replays/$p-$m; mv replays/$p-*.json /dev/shm/r2replays/$p-$m/ 2>/dev/null
 done
done
for p in C01 C02 C03 C04 C05 C06 C07 C08 C09 C10 C11 C12 C13 C14 C15 C16 C17 C18 C19 C20; do
 for m in m1 m2; do
  d=/tmp/wt/$p/_seed/${m}_demo_test.go.txt
  [ -f $d ] || continue
  hdr=$(head -1 $d)
  place=$(echo "$hdr" | sed -n 's#.*PLACE: *\([^ ]*\) .*#\1#p'); rx=$(echo "$hdr" | sed -n "s#.*RUN: *##p" | tr -d "'\"")
  /dev/shm/confirm.sh $p $m "${place%/}" "$rx" 2>&1 | grep -E "^C[0-9]" | sed -e 's/suite_with_change=\[20[0-9].*/suite_with_change=[log noise]/' | cut -c1-300
 done
done
echo ROUND2 DONE
