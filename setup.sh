#!/bin/bash
# Offline setup: builds the driver and a first worker binary from files on disk.
set -e
cd /verif
. ./env.sh
mkdir -p .build evidence replays
cp /repo/go.sum sim/go.sum
( cd sim && go build -o ../.build/vcheck ./cmd/vcheck && go test -c -tags verif -o ../.build/worker.test ./worker )
echo "setup ok: $(go version)"
